(* C16: printing a regex tree with the fewest parentheses ([print_re]) or with arbitrary
   redundant parentheses ([print_any]) and parsing it back yields exactly that tree.

   Finding: [Parser.eoi_safe] is NOT sufficient ([eoi_safe_insufficient] below:
   RCat (RDiff 'a' $) $v prints as  'a' # $ $v  which parses as  'a' # $$v ), and it is also
   stronger than necessary (it rejects  $ 'a'  and  ('a' | $) $v , which round-trip).
   The theorems are therefore stated for the level-aware predicate [eoi_safe'] defined here:
   in no concatenation  a b  does the minimal printing of [a] end with a bare `$` (an REoi)
   while the minimal printing of [b] starts with a `$` token (REoi / RVar / RBuiltin). *)
From LexVerif Require Import Base CharClass Regex Parser.

(* ---------- sizes ---------- *)

Lemma toks_size_app : forall a b, toks_size (a ++ b) = toks_size a + toks_size b.
Proof.
  unfold toks_size. induction a as [|x a IH]; intros b; simpl; [reflexivity|].
  rewrite IH. lia.
Qed.

Lemma tok_size_pos : forall t, 1 <= tok_size t.
Proof. destruct t; simpl; lia. Qed.

Lemma toks_size_cons : forall t ts, toks_size (t :: ts) = tok_size t + toks_size ts.
Proof. reflexivity. Qed.

Lemma toks_size_paren : forall ts, toks_size [TParen ts] = S (toks_size ts).
Proof. intros. unfold toks_size. simpl. lia. Qed.

(* ---------- fuel monotonicity ---------- *)

Lemma mono_all : forall f,
  (forall l ts res f', f <= f' -> parse_re f l ts = Some res -> parse_re f' l ts = Some res) /\
  (forall acc ts res f', f <= f' -> loop_or f acc ts = Some res -> loop_or f' acc ts = Some res) /\
  (forall acc ts res f', f <= f' -> loop_cat f acc ts = Some res -> loop_cat f' acc ts = Some res) /\
  (forall acc ts res f', f <= f' -> loop_diff f acc ts = Some res -> loop_diff f' acc ts = Some res).
Proof.
  induction f as [|f IH].
  - repeat split; intros; discriminate.
  - destruct IH as (IHp & IHo & IHc & IHd).
    repeat split.
    + intros l ts res f' Hle H. destruct f' as [|f']; [lia|]. assert (Hle' : f <= f') by lia.
      destruct l as [|[|[|[|l]]]].
      * change (match parse_re f 1 ts with None => None | Some (r, rest) => loop_or f r rest end = Some res) in H.
        change (match parse_re f' 1 ts with None => None | Some (r, rest) => loop_or f' r rest end = Some res).
        destruct (parse_re f 1 ts) as [[r rest]|] eqn:E; [|discriminate].
        rewrite (IHp _ _ _ _ Hle' E). eauto.
      * change (match parse_re f 2 ts with None => None | Some (r, rest) => loop_cat f r rest end = Some res) in H.
        change (match parse_re f' 2 ts with None => None | Some (r, rest) => loop_cat f' r rest end = Some res).
        destruct (parse_re f 2 ts) as [[r rest]|] eqn:E; [|discriminate].
        rewrite (IHp _ _ _ _ Hle' E). eauto.
      * change (match parse_re f 3 ts with None => None | Some (r, rest) => Some (loop_post r rest) end = Some res) in H.
        change (match parse_re f' 3 ts with None => None | Some (r, rest) => Some (loop_post r rest) end = Some res).
        destruct (parse_re f 3 ts) as [[r rest]|] eqn:E; [|discriminate].
        rewrite (IHp _ _ _ _ Hle' E). exact H.
      * change (match parse_re f 4 ts with None => None | Some (r, rest) => loop_diff f r rest end = Some res) in H.
        change (match parse_re f' 4 ts with None => None | Some (r, rest) => loop_diff f' r rest end = Some res).
        destruct (parse_re f 4 ts) as [[r rest]|] eqn:E; [|discriminate].
        rewrite (IHp _ _ _ _ Hle' E). eauto.
      * destruct ts as [|t ts]; [discriminate|].
        destruct t; try exact H.
        change (match parse_re f 0 ts0 with Some (r, []) => Some (r, ts) | _ => None end = Some res) in H.
        change (match parse_re f' 0 ts0 with Some (r, []) => Some (r, ts) | _ => None end = Some res).
        destruct (parse_re f 0 ts0) as [[r [|x rest]]|] eqn:E; try discriminate.
        rewrite (IHp _ _ _ _ Hle' E). exact H.
    + intros acc ts res f' Hle H. destruct f' as [|f']; [lia|]. assert (Hle' : f <= f') by lia.
      destruct ts as [|t ts]; [exact H|]. destruct t; try exact H.
      change (match parse_re f 1 ts with None => None | Some (r2, rest') => loop_or f (ROr acc r2) rest' end = Some res) in H.
      change (match parse_re f' 1 ts with None => None | Some (r2, rest') => loop_or f' (ROr acc r2) rest' end = Some res).
      destruct (parse_re f 1 ts) as [[r rest]|] eqn:E; [|discriminate].
      rewrite (IHp _ _ _ _ Hle' E). eauto.
    + intros acc ts res f' Hle H. destruct f' as [|f']; [lia|]. assert (Hle' : f <= f') by lia.
      destruct ts as [|t ts]; [exact H|].
      change ((if starts_atom t then
                 match parse_re f 2 (t :: ts) with None => None | Some (r2, rest') => loop_cat f (RCat acc r2) rest' end
               else Some (acc, t :: ts)) = Some res) in H.
      change ((if starts_atom t then
                 match parse_re f' 2 (t :: ts) with None => None | Some (r2, rest') => loop_cat f' (RCat acc r2) rest' end
               else Some (acc, t :: ts)) = Some res).
      destruct (starts_atom t); [|exact H].
      destruct (parse_re f 2 (t :: ts)) as [[r rest]|] eqn:E; [|discriminate].
      rewrite (IHp _ _ _ _ Hle' E). eauto.
    + intros acc ts res f' Hle H. destruct f' as [|f']; [lia|]. assert (Hle' : f <= f') by lia.
      destruct ts as [|t ts]; [exact H|]. destruct t; try exact H.
      change (match parse_re f 4 ts with None => None | Some (r2, rest') => loop_diff f (RDiff acc r2) rest' end = Some res) in H.
      change (match parse_re f' 4 ts with None => None | Some (r2, rest') => loop_diff f' (RDiff acc r2) rest' end = Some res).
      destruct (parse_re f 4 ts) as [[r rest]|] eqn:E; [|discriminate].
      rewrite (IHp _ _ _ _ Hle' E). eauto.
Qed.

(* fuel monotonicity: more fuel never changes a successful parse *)
Theorem parse_re_fuel_mono : forall fuel fuel' level ts res,
  fuel <= fuel' -> parse_re fuel level ts = Some res -> parse_re fuel' level ts = Some res.
Proof. intros. eapply (proj1 (mono_all fuel)); eauto. Qed.

(* ---------- the loops, uniformly ---------- *)

Definition loop (l f : nat) (acc : regex) (ts : list tok) : option (regex * list tok) :=
  match l with
  | 0 => loop_or f acc ts
  | 1 => loop_cat f acc ts
  | 2 => Some (loop_post acc ts)
  | 3 => loop_diff f acc ts
  | _ => Some (acc, ts)
  end.

Lemma parse_re_step : forall f l ts, l <= 3 ->
  parse_re (S f) l ts =
  match parse_re f (S l) ts with None => None | Some (r, rest) => loop l f r rest end.
Proof. intros f l ts H. destruct l as [|[|[|[|l]]]]; try reflexivity. lia. Qed.

Lemma parse_paren : forall f ts rest,
  parse_re (S f) 4 (TParen ts :: rest) =
  match parse_re f 0 ts with Some (r, []) => Some (r, rest) | _ => None end.
Proof. reflexivity. Qed.

Lemma parse_bracket : forall f ts rest,
  parse_re (S f) 4 (TBracket ts :: rest) =
  match parse_charset ts with Some l => Some (RCharSet l, rest) | None => None end.
Proof. reflexivity. Qed.

Lemma loop_or_step : forall f acc rest,
  loop_or (S f) acc (TOr :: rest) =
  match parse_re f 1 rest with None => None | Some (r2, rest') => loop_or f (ROr acc r2) rest' end.
Proof. reflexivity. Qed.

Lemma loop_cat_step : forall f acc t ts,
  loop_cat (S f) acc (t :: ts) =
  if starts_atom t then
    match parse_re f 2 (t :: ts) with None => None | Some (r2, rest') => loop_cat f (RCat acc r2) rest' end
  else Some (acc, t :: ts).
Proof. reflexivity. Qed.

Lemma loop_diff_step : forall f acc rest,
  loop_diff (S f) acc (TPound :: rest) =
  match parse_re f 4 rest with None => None | Some (r2, rest') => loop_diff f (RDiff acc r2) rest' end.
Proof. reflexivity. Qed.

(* ---------- which token continues a phrase of level l ---------- *)

Definition cont_tok (l : nat) (t : tok) : bool :=
  match t with
  | TPound => l <=? 3
  | TStar | TPlus | TQuestion => l <=? 2
  | TOr => l =? 0
  | _ => starts_atom t && (l <=? 1)
  end.

Definition stops_l (l : nat) (rest : list tok) : Prop :=
  match rest with [] => True | t :: _ => cont_tok l t = false end.

Lemma cont_tok_mono : forall l l' t, l <= l' -> cont_tok l t = false -> cont_tok l' t = false.
Proof.
  intros l l' t Hle H.
  destruct t; simpl in *; try reflexivity;
    rewrite ?Nat.leb_gt, ?Nat.eqb_neq in *; try lia.
Qed.

Lemma stops_l_mono : forall l l' rest, l <= l' -> stops_l l rest -> stops_l l' rest.
Proof. intros l l' [|t rest] Hle H; simpl in *; eauto using cont_tok_mono. Qed.

Lemma loop_stop : forall l f acc rest, stops_l l rest -> loop l (S f) acc rest = Some (acc, rest).
Proof.
  intros l f acc rest H.
  destruct l as [|[|[|[|l]]]]; destruct rest as [|t rest]; try reflexivity;
    destruct t; simpl in H; try discriminate; reflexivity.
Qed.

(* ---------- the bare-`$` side condition on token lists ---------- *)

Definition is_dollar (t : tok) : bool := match t with TDollar => true | _ => false end.

Definition starts_dollar (ts : list tok) : bool :=
  match ts with TDollar :: _ => true | _ => false end.

Fixpoint ends_dollar (ts : list tok) : bool :=
  match ts with
  | [] => false
  | t :: ts' => match ts' with [] => is_dollar t | _ :: _ => ends_dollar ts' end
  end.

Definition nodollar (rest : list tok) : Prop :=
  match rest with TDollar :: _ | TIdent _ :: _ => False | _ => True end.

Definition condE (ts rest : list tok) : Prop := ends_dollar ts = true -> nodollar rest.

Lemma ends_dollar_app : forall a b, b <> [] -> ends_dollar (a ++ b) = ends_dollar b.
Proof.
  induction a as [|x a IH]; intros b Hb; [reflexivity|].
  specialize (IH b Hb). simpl.
  destruct (a ++ b) as [|y l] eqn:E.
  - destruct a; simpl in E; [congruence|discriminate].
  - exact IH.
Qed.

Lemma starts_dollar_app : forall a b, a <> [] -> starts_dollar (a ++ b) = starts_dollar a.
Proof. intros [|x a] b H; [congruence|reflexivity]. Qed.

(* ---------- printings, as a relation covering every choice of redundant parentheses ---------- *)

Inductive pr : nat -> regex -> list tok -> Prop :=
| pr_paren : forall l r ts, l <= 4 -> pr 0 r ts -> pr l r [TParen ts]
| pr_builtin : forall l n, l <= 4 -> pr l (RBuiltin n) [TDollar; TDollar; TIdent n]
| pr_var : forall l v, l <= 4 -> pr l (RVar v) [TDollar; TIdent v]
| pr_char : forall l c, l <= 4 -> pr l (RChar c) [TChar c]
| pr_string : forall l s, l <= 4 -> pr l (RString s) [TStr s]
| pr_charset : forall l cs, l <= 4 -> pr l (RCharSet cs) [TBracket (flat_map print_cor cs)]
| pr_any : forall l, l <= 4 -> pr l RAny [TUnderscore]
| pr_eoi : forall l, l <= 4 -> pr l REoi [TDollar]
| pr_star : forall l a ts, l <= 2 -> pr 2 a ts -> pr l (RStar a) (ts ++ [TStar])
| pr_plus : forall l a ts, l <= 2 -> pr 2 a ts -> pr l (RPlus a) (ts ++ [TPlus])
| pr_opt : forall l a ts, l <= 2 -> pr 2 a ts -> pr l (ROpt a) (ts ++ [TQuestion])
| pr_cat : forall l a b ta tb, l <= 1 -> pr 1 a ta -> pr 2 b tb ->
    (ends_dollar ta = true -> starts_dollar tb = false) -> pr l (RCat a b) (ta ++ tb)
| pr_or : forall a b ta tb, pr 0 a ta -> pr 1 b tb -> pr 0 (ROr a b) (ta ++ TOr :: tb)
| pr_diff : forall l a b ta tb, l <= 3 -> pr 3 a ta -> pr 4 b tb ->
    pr l (RDiff a b) (ta ++ TPound :: tb).

Lemma pr_starts : forall l r ts, pr l r ts ->
  exists t ts', ts = t :: ts' /\ starts_atom t = true.
Proof.
  induction 1; try (eexists; eexists; split; [reflexivity|reflexivity]);
    repeat match goal with
           | H : exists _, _ |- _ => destruct H
           | H : _ /\ _ |- _ => destruct H
           end; subst; simpl; eauto.
Qed.

Lemma pr_size : forall l r ts, pr l r ts -> 1 <= toks_size ts.
Proof.
  intros l r ts H. destruct (pr_starts _ _ _ H) as (t & ts' & -> & _).
  rewrite toks_size_cons. pose proof (tok_size_pos t). lia.
Qed.

Lemma pr_level : forall l r ts, pr l r ts -> l <= 4.
Proof. induction 1; lia. Qed.

(* ---------- the two statements proved together ---------- *)

(* direct: a level-l phrase followed by something that cannot continue it *)
Definition Dst (l : nat) (r : regex) (ts : list tok) : Prop :=
  forall rest f, stops_l l rest -> condE ts rest ->
    6 * toks_size ts + (5 - l) <= f ->
    parse_re f l (ts ++ rest) = Some (r, rest).

(* continuation: a level-l phrase followed by anything that does not continue it at the levels
   above l; the level-l loop then runs on [rest] with accumulator [r] *)
Definition Qst (l : nat) (r : regex) (ts : list tok) : Prop :=
  forall rest res n f, stops_l (S l) rest -> condE ts rest ->
    (forall f', n <= f' -> loop l f' r rest = Some res) ->
    n + toks_size ts <= f ->
    6 * toks_size ts + (5 - l) <= f ->
    parse_re f l (ts ++ rest) = Some res.

Lemma lift : forall l r ts, l <= 3 -> 1 <= toks_size ts -> Dst (S l) r ts -> Qst l r ts.
Proof.
  intros l r ts Hl Hs HD rest res n f Hst HE Hloop Hn Hf.
  destruct f as [|f]; [lia|].
  rewrite parse_re_step by lia.
  rewrite (HD rest f Hst HE) by lia.
  apply Hloop. lia.
Qed.

Lemma QtoD : forall l r ts, l <= 3 -> Qst l r ts -> Dst l r ts.
Proof.
  intros l r ts Hl HQ rest f Hst HE Hf.
  apply (HQ rest (r, rest) 1 f); auto.
  - eapply stops_l_mono; [|exact Hst]. lia.
  - intros f' Hf'. destruct f' as [|f']; [lia|]. apply loop_stop; auto.
  - lia.
Qed.

Lemma wrap : forall p r ts, 1 <= toks_size ts -> p <= 4 ->
  (p <= 3 -> Qst p r ts) -> (p = 4 -> Dst 4 r ts) ->
  forall l, l <= p -> Dst l r ts /\ (l <= 3 -> Qst l r ts).
Proof.
  intros p r ts Hs Hp HQ HD.
  assert (Dp : Dst p r ts).
  { destruct (Nat.eq_dec p 4) as [->|]; [auto|]. apply QtoD; [lia|]. apply HQ; lia. }
  assert (H : forall k l, l + k = p -> Dst l r ts).
  { induction k as [|k IH]; intros l E.
    - replace l with p by lia. exact Dp.
    - apply QtoD; [lia|]. apply lift; [lia|auto|]. apply IH. lia. }
  intros l Hl. split.
  - apply (H (p - l)). lia.
  - intros Hl3. destruct (Nat.eq_dec l p) as [->|].
    + auto.
    + apply lift; auto. apply (H (p - S l)). lia.
Qed.

Lemma parse_charset_print : forall cs, parse_charset (flat_map print_cor cs) = Some cs.
Proof.
  induction cs as [|x cs IH]; [reflexivity|].
  destruct x as [a|a b]; simpl.
  - rewrite IH. destruct cs as [|[|] cs']; reflexivity.
  - rewrite IH. reflexivity.
Qed.

Ltac atom_case :=
  match goal with
  | Hl : ?l <= 4 |- _ =>
      apply (wrap 4); [unfold toks_size; simpl; lia | lia | intros; lia | intros _ | exact Hl]
  end.

Lemma post_case : forall a ts t mk,
  (forall acc rest, loop_post acc (t :: rest) = loop_post (mk acc) rest) ->
  cont_tok 3 t = false -> is_dollar t = false -> (forall n, t <> TIdent n) ->
  pr 2 a ts ->
  Qst 2 a ts -> Qst 2 (mk a) (ts ++ [t]).
Proof.
  intros a ts t mk Hpost Hc Hd Hi Hpr IHQ rest res n f Hst HE Hloop Hn Hf.
  rewrite <- app_assoc. simpl.
  rewrite toks_size_app in *. simpl in Hn, Hf.
  apply (IHQ (t :: rest) res n f).
  - exact Hc.
  - intros _. destruct t; simpl in *; try exact I; try discriminate. exfalso; eapply Hi; eauto.
  - intros f' Hf'. change (Some (loop_post a (t :: rest)) = Some res). rewrite Hpost. exact (Hloop f' Hf').
  - lia.
  - lia.
Qed.

Theorem pr_parse : forall l r ts, pr l r ts -> Dst l r ts /\ (l <= 3 -> Qst l r ts).
Proof.
  induction 1.
  - (* parentheses *)
    apply (wrap 4); [rewrite toks_size_paren; lia | lia | intros; lia | intros _ | assumption].
    intros rest f Hst HE Hf. rewrite toks_size_paren in Hf.
    destruct f as [|f]; [lia|]. simpl app. rewrite parse_paren.
    destruct IHpr as [ID _].
    specialize (ID [] f I). rewrite app_nil_r in ID. rewrite ID; [reflexivity| |lia].
    intros _. exact I.
  - atom_case. intros rest f Hst HE Hf. destruct f as [|f]; [lia|]. reflexivity.
  - atom_case. intros rest f Hst HE Hf. destruct f as [|f]; [lia|]. reflexivity.
  - atom_case. intros rest f Hst HE Hf. destruct f as [|f]; [lia|]. reflexivity.
  - atom_case. intros rest f Hst HE Hf. destruct f as [|f]; [lia|]. reflexivity.
  - atom_case. intros rest f Hst HE Hf. destruct f as [|f]; [lia|].
    simpl app. rewrite parse_bracket, parse_charset_print. reflexivity.
  - atom_case. intros rest f Hst HE Hf. destruct f as [|f]; [lia|]. reflexivity.
  - atom_case. intros rest f Hst HE Hf. destruct f as [|f]; [lia|].
    specialize (HE eq_refl).
    destruct rest as [|t rest]; [reflexivity|]. destruct t; simpl in HE; try contradiction; reflexivity.
  - (* star *)
    pose proof (pr_size _ _ _ H0).
    apply (wrap 2); [rewrite toks_size_app; lia | lia | intros _ | intros; lia | assumption].
    apply (post_case a ts TStar RStar); auto; try reflexivity; try (intros; discriminate).
    apply IHpr; lia.
  - pose proof (pr_size _ _ _ H0).
    apply (wrap 2); [rewrite toks_size_app; lia | lia | intros _ | intros; lia | assumption].
    apply (post_case a ts TPlus RPlus); auto; try reflexivity; try (intros; discriminate).
    apply IHpr; lia.
  - pose proof (pr_size _ _ _ H0).
    apply (wrap 2); [rewrite toks_size_app; lia | lia | intros _ | intros; lia | assumption].
    apply (post_case a ts TQuestion ROpt); auto; try reflexivity; try (intros; discriminate).
    apply IHpr; lia.
  - (* concatenation *)
    pose proof (pr_size _ _ _ H0) as Hsa. pose proof (pr_size _ _ _ H1) as Hsb.
    apply (wrap 1); [rewrite toks_size_app; lia | lia | intros _ | intros; lia | assumption].
    destruct IHpr1 as [_ IQa]. specialize (IQa ltac:(lia)).
    destruct IHpr2 as [IDb _].
    destruct (pr_starts _ _ _ H1) as (t & tb' & Etb & Hat).
    intros rest res n f Hst HE Hloop Hn Hf.
    rewrite <- app_assoc. rewrite toks_size_app in Hn, Hf.
    apply (IQa (tb ++ rest) res (S (Nat.max n (6 * toks_size tb + 3))) f).
    + subst tb. simpl. destruct t; simpl in Hat; try discriminate; reflexivity.
    + intros Hd. specialize (H2 Hd). subst tb. simpl.
      destruct t; simpl in Hat, H2; try discriminate; exact I.
    + intros f' Hf'. destruct f' as [|f']; [lia|].
      assert (Hcond : condE tb rest).
      { intros Hd. apply HE. rewrite ends_dollar_app; [exact Hd|]. subst tb; discriminate. }
      pose proof (IDb rest f' Hst Hcond ltac:(lia)) as Hb.
      unfold loop. rewrite Etb in *. simpl app in *. rewrite loop_cat_step, Hat, Hb.
      apply (Hloop f'). lia.
    + lia.
    + lia.
  - (* alternation *)
    pose proof (pr_size _ _ _ H) as Hsa. pose proof (pr_size _ _ _ H0) as Hsb.
    apply (wrap 0); [rewrite toks_size_app, toks_size_cons; lia | lia | intros _ | intros; lia | lia].
    destruct IHpr1 as [_ IQa]. specialize (IQa ltac:(lia)).
    destruct IHpr2 as [IDb _].
    intros rest res n f Hst HE Hloop Hn Hf.
    rewrite <- app_assoc. rewrite toks_size_app, toks_size_cons in Hn, Hf. simpl tok_size in Hn, Hf.
    simpl app.
    apply (IQa (TOr :: tb ++ rest) res (S (Nat.max n (6 * toks_size tb + 4))) f).
    + reflexivity.
    + intros _. exact I.
    + intros f' Hf'. destruct f' as [|f']; [lia|].
      assert (Hcond : condE tb rest).
      { intros Hd. apply HE. rewrite (ends_dollar_app ta (TOr :: tb)) by discriminate.
        destruct (pr_starts _ _ _ H0) as (t & tb' & -> & _). exact Hd. }
      pose proof (IDb rest f' Hst Hcond ltac:(lia)) as Hb.
      unfold loop. rewrite loop_or_step, Hb.
      apply (Hloop f'). lia.
    + lia.
    + lia.
  - (* difference *)
    pose proof (pr_size _ _ _ H0) as Hsa. pose proof (pr_size _ _ _ H1) as Hsb.
    apply (wrap 3); [rewrite toks_size_app, toks_size_cons; lia | lia | intros _ | intros; lia | assumption].
    destruct IHpr1 as [_ IQa]. specialize (IQa ltac:(lia)).
    destruct IHpr2 as [IDb _].
    intros rest res n f Hst HE Hloop Hn Hf.
    rewrite <- app_assoc. rewrite toks_size_app, toks_size_cons in Hn, Hf. simpl tok_size in Hn, Hf.
    simpl app.
    apply (IQa (TPound :: tb ++ rest) res (S (Nat.max n (6 * toks_size tb + 1))) f).
    + reflexivity.
    + intros _. exact I.
    + intros f' Hf'. destruct f' as [|f']; [lia|].
      assert (Hcond : condE tb rest).
      { intros Hd. apply HE. rewrite (ends_dollar_app ta (TPound :: tb)) by discriminate.
        destruct (pr_starts _ _ _ H1) as (t & tb' & -> & _). exact Hd. }
      pose proof (IDb rest f' Hst Hcond ltac:(lia)) as Hb.
      unfold loop. rewrite loop_diff_step, Hb.
      apply (Hloop f'). lia.
    + lia.
    + lia.
Qed.

(* ---------- the side condition on trees ---------- *)

(* the minimal printing of [r] at level [l] ends with a bare `$` *)
Fixpoint ends_eoi (l : nat) (r : regex) {struct r} : bool :=
  if prec r <? l then false else
  match r with
  | REoi => true
  | RCat _ b => ends_eoi 2 b
  | ROr _ b => ends_eoi 1 b
  | RDiff _ b => ends_eoi 4 b
  | _ => false
  end.

(* the minimal printing of [r] at level [l] starts with a `$` token *)
Fixpoint starts_dol (l : nat) (r : regex) {struct r} : bool :=
  if prec r <? l then false else
  match r with
  | REoi | RVar _ | RBuiltin _ => true
  | RStar a | RPlus a | ROpt a => starts_dol 2 a
  | RCat a _ => starts_dol 1 a
  | ROr a _ => starts_dol 0 a
  | RDiff a _ => starts_dol 3 a
  | _ => false
  end.

Fixpoint eoi_safe' (r : regex) : bool :=
  match r with
  | RCat a b => negb (ends_eoi 1 a && starts_dol 2 b) && eoi_safe' a && eoi_safe' b
  | RStar a | RPlus a | ROpt a => eoi_safe' a
  | ROr a b | RDiff a b => eoi_safe' a && eoi_safe' b
  | _ => true
  end.

(* every tree is printable; the only obstacle to reading it back is the bare `$` *)
Definition printable (r : regex) : bool := eoi_safe' r.

Lemma ends_eoi_eq : forall l r, ends_eoi l r =
  if prec r <? l then false else
  match r with
  | REoi => true
  | RCat _ b => ends_eoi 2 b
  | ROr _ b => ends_eoi 1 b
  | RDiff _ b => ends_eoi 4 b
  | _ => false
  end.
Proof. destruct r; reflexivity. Qed.

Lemma starts_dol_eq : forall l r, starts_dol l r =
  if prec r <? l then false else
  match r with
  | REoi | RVar _ | RBuiltin _ => true
  | RStar a | RPlus a | ROpt a => starts_dol 2 a
  | RCat a _ => starts_dol 1 a
  | ROr a _ => starts_dol 0 a
  | RDiff a _ => starts_dol 3 a
  | _ => false
  end.
Proof. destruct r; reflexivity. Qed.

(* ---------- the printers produce [pr] derivations ---------- *)

Definition wrapP (b : bool) (body : list tok) : list tok := if b then [TParen body] else body.

Definition body_any (extra : nat -> regex -> bool) (r : regex) : list tok :=
  match r with
  | RBuiltin n => [TDollar; TDollar; TIdent n]
  | RVar v => [TDollar; TIdent v]
  | RChar c => [TChar c]
  | RString s => [TStr s]
  | RCharSet l => [TBracket (flat_map print_cor l)]
  | RStar a => print_any extra 2 a ++ [TStar]
  | RPlus a => print_any extra 2 a ++ [TPlus]
  | ROpt a => print_any extra 2 a ++ [TQuestion]
  | RCat a b => print_any extra 1 a ++ print_any extra 2 b
  | ROr a b => print_any extra 0 a ++ TOr :: print_any extra 1 b
  | RAny => [TUnderscore]
  | REoi => [TDollar]
  | RDiff a b => print_any extra 3 a ++ TPound :: print_any extra 4 b
  end.

Lemma print_any_eq : forall extra l r,
  print_any extra l r = wrapP ((prec r <? l) || extra l r) (body_any extra r).
Proof. destruct r; reflexivity. Qed.

Lemma print_re_any : forall r lv, print_re lv r = print_any (fun _ _ => false) lv r.
Proof.
  induction r; intros lv; simpl; rewrite ?orb_false_r, ?IHr, ?IHr1, ?IHr2; reflexivity.
Qed.

Lemma body_any_nonempty : forall extra r,
  (forall l, match r with
             | RCat a _ => print_any extra l a <> []
             | _ => True end) ->
  body_any extra r <> [].
Proof.
  intros extra r H. destruct r; simpl; try discriminate;
    try (intros E; apply app_eq_nil in E; destruct E; discriminate).
  intros E; apply app_eq_nil in E; destruct E as [E _]. exact (H 1 E).
Qed.

Lemma print_any_nonempty : forall extra r lv, print_any extra lv r <> [].
Proof.
  induction r; intros lv; rewrite print_any_eq; unfold wrapP;
    match goal with |- (if ?c then _ else _) <> _ => destruct c end; try discriminate;
    apply body_any_nonempty; auto.
Qed.

Lemma any_ends : forall extra r lv,
  ends_dollar (print_any extra lv r) = true -> ends_eoi lv r = true.
Proof.
  induction r; intros lv; rewrite print_any_eq, ends_eoi_eq; unfold wrapP;
    destruct (prec _ <? lv); simpl orb; try (intros; discriminate);
    destruct (extra lv _); try (intros; discriminate); simpl body_any;
    try (simpl; intros; discriminate);
    try (rewrite ends_dollar_app by discriminate; simpl; intros; discriminate).
  - (* cat *) rewrite ends_dollar_app by apply print_any_nonempty. apply IHr2.
  - (* or *) rewrite (ends_dollar_app _ (TOr :: _)) by discriminate.
    pose proof (print_any_nonempty extra r2 1) as Hne.
    simpl. destruct (print_any extra 1 r2) eqn:E; [congruence|]. rewrite <- E. apply IHr2.
  - reflexivity.
  - (* diff *) rewrite (ends_dollar_app _ (TPound :: _)) by discriminate.
    pose proof (print_any_nonempty extra r2 4) as Hne.
    simpl. destruct (print_any extra 4 r2) eqn:E; [congruence|]. rewrite <- E. apply IHr2.
Qed.

Lemma any_starts : forall extra r lv,
  starts_dollar (print_any extra lv r) = true -> starts_dol lv r = true.
Proof.
  induction r; intros lv; rewrite print_any_eq, starts_dol_eq; unfold wrapP;
    destruct (prec _ <? lv); simpl orb; try (intros; discriminate);
    destruct (extra lv _); try (intros; discriminate); simpl body_any;
    try reflexivity; try (simpl; intros; discriminate);
    rewrite starts_dollar_app by apply print_any_nonempty; auto.
Qed.

Lemma pr_wrap : forall l r body b, l <= 4 ->
  (forall l', l' <= prec r -> pr l' r body) ->
  (b = false -> l <= prec r) ->
  pr l r (wrapP b body).
Proof.
  intros l r body [|] Hl H Hb; simpl.
  - apply pr_paren; auto. apply H. lia.
  - apply H. auto.
Qed.

Ltac kid :=
  auto; try lia;
  try (match goal with
       | IH : _ -> forall lv, _ -> pr lv ?r _ |- pr _ ?r _ => apply IH; [assumption|lia]
       end).

Lemma print_any_pr : forall extra r, eoi_safe' r = true ->
  forall lv, lv <= 4 -> pr lv r (print_any extra lv r).
Proof.
  induction r; intros Hs lv Hl; rewrite print_any_eq; simpl in Hs;
    repeat match goal with H : _ && _ = true |- _ => apply andb_true_iff in H; destruct H end;
    (apply pr_wrap; [exact Hl | |
       intros E; apply orb_false_iff in E; destruct E as [E _]; apply Nat.ltb_ge in E; exact E]);
    simpl prec; simpl body_any; intros lv' Hl'.
  - apply pr_builtin; kid.
  - apply pr_var; kid.
  - apply pr_char; kid.
  - apply pr_string; kid.
  - apply pr_charset; kid.
  - apply pr_star; kid.
  - apply pr_plus; kid.
  - apply pr_opt; kid.
  - apply pr_cat; kid.
    intros Hd. apply any_ends in Hd.
    destruct (starts_dollar (print_any extra 2 r2)) eqn:E; [|reflexivity].
    apply any_starts in E. rewrite Hd, E in H. simpl in H. discriminate.
  - replace lv' with 0 by lia. apply pr_or; kid.
  - apply pr_any; kid.
  - apply pr_eoi; kid.
  - apply pr_diff; kid.
Qed.

(* ---------- C16 ---------- *)

(* which token may follow a complete regex without being swallowed by it *)
Definition stops (rest : list tok) : Prop :=
  match rest with
  | [] => True
  | t :: _ => starts_atom t = false /\ t <> TOr /\ t <> TStar /\ t <> TPlus /\ t <> TQuestion /\ t <> TPound
              /\ (forall n, t <> TIdent n)
  end.

Lemma stops_stops_l : forall rest, stops rest -> stops_l 0 rest /\ nodollar rest.
Proof.
  intros [|t rest] H; [split; exact I|].
  destruct H as (Ha & H1 & H2 & H3 & H4 & H5 & H6).
  destruct t; simpl in *; try discriminate; try congruence; try (split; [reflexivity|exact I]).
Qed.

Theorem roundtrip_any : forall extra r rest,
  eoi_safe' r = true -> stops rest ->
  forall fuel, parse_fuel (print_any extra 0 r ++ rest) <= fuel ->
  parse_re fuel 0 (print_any extra 0 r ++ rest) = Some (r, rest).
Proof.
  intros extra r rest Hs Hst fuel Hf.
  destruct (pr_parse _ _ _ (print_any_pr extra r Hs 0 ltac:(lia))) as [HD _].
  destruct (stops_stops_l _ Hst) as [H0 Hn].
  apply HD; auto.
  - intros _. exact Hn.
  - unfold parse_fuel in Hf. rewrite toks_size_app in Hf. lia.
Qed.

Theorem roundtrip_any_top : forall extra r,
  eoi_safe' r = true -> parse_regex (print_any extra 0 r) = Some (r, []).
Proof.
  intros extra r Hs. unfold parse_regex.
  pose proof (roundtrip_any extra r [] Hs I) as H. rewrite app_nil_r in H. apply H. lia.
Qed.

Theorem roundtrip_min : forall r rest,
  eoi_safe' r = true -> stops rest ->
  forall fuel, parse_fuel (print_re 0 r ++ rest) <= fuel ->
  parse_re fuel 0 (print_re 0 r ++ rest) = Some (r, rest).
Proof. intros r rest. rewrite print_re_any. apply roundtrip_any. Qed.

Theorem roundtrip_min_top : forall r,
  eoi_safe' r = true -> parse_regex (print_re 0 r) = Some (r, []).
Proof. intros r. rewrite print_re_any. apply roundtrip_any_top. Qed.

(* ---------- sufficient conditions for [eoi_safe'] ---------- *)

Fixpoint eoi_free (r : regex) : bool :=
  match r with
  | REoi => false
  | RStar a | RPlus a | ROpt a => eoi_free a
  | RCat a b | ROr a b | RDiff a b => eoi_free a && eoi_free b
  | _ => true
  end.

Fixpoint eoi_tail (r : regex) : bool :=
  match r with
  | RCat a b => eoi_free a && eoi_tail b
  | ROr a b => eoi_tail a && eoi_tail b
  | ROpt a => eoi_tail a
  | RStar a | RPlus a => eoi_free a
  | RDiff a b => eoi_free a && eoi_free b
  | _ => true
  end.

Lemma eoi_free_ends : forall r, eoi_free r = true -> forall lv, ends_eoi lv r = false.
Proof.
  induction r; intros H lv; rewrite ends_eoi_eq; destruct (prec _ <? lv); try reflexivity;
    simpl in H; try discriminate;
    repeat match goal with H : _ && _ = true |- _ => apply andb_true_iff in H; destruct H end; auto.
Qed.

Lemma eoi_free_safe : forall r, eoi_free r = true -> eoi_safe' r = true.
Proof.
  induction r; intros H; simpl in *; try reflexivity; auto;
    apply andb_true_iff in H; destruct H as [Ha Hb];
    rewrite ?IHr1, ?IHr2 by auto; try reflexivity.
  rewrite (eoi_free_ends _ Ha). reflexivity.
Qed.

Lemma eoi_tail_safe : forall r, eoi_tail r = true -> eoi_safe' r = true.
Proof.
  induction r; intros H; simpl in *; try reflexivity; auto using eoi_free_safe;
    apply andb_true_iff in H; destruct H as [Ha Hb].
  - rewrite (eoi_free_ends _ Ha), (eoi_free_safe _ Ha), IHr2 by auto. reflexivity.
  - rewrite IHr1, IHr2 by auto. reflexivity.
  - rewrite !eoi_free_safe by auto. reflexivity.
Qed.

(* ---------- Parser.eoi_safe versus eoi_safe' ---------- *)

(* [Parser.eoi_safe] does not exclude `a # $` on the left of a concatenation *)
Lemma eoi_safe_insufficient :
  let r := RCat (RDiff (RChar 97) REoi) (RVar [120%N]) in
  eoi_safe r = true /\
  parse_regex (print_re 0 r) = Some (RDiff (RChar 97) (RBuiltin [120%N]), []).
Proof. split; reflexivity. Qed.

(* ... and rejects trees that do round-trip *)
Lemma eoi_safe_too_strong :
  let r := RCat REoi (RChar 97) in
  eoi_safe r = false /\ parse_regex (print_re 0 r) = Some (r, []).
Proof. split; reflexivity. Qed.

(* [Parser.eoi_safe] repaired by letting [ends_with_eoi] look through the right operand of `#`
   implies [eoi_safe'] *)
Fixpoint ends_with_eoi_fix (r : regex) : bool :=
  match r with
  | REoi => true
  | RCat _ b | ROr _ b | RDiff _ b => ends_with_eoi_fix b
  | _ => false
  end.

Fixpoint eoi_safe_fix (r : regex) : bool :=
  match r with
  | RCat a b => negb (ends_with_eoi_fix a) && eoi_safe_fix a && eoi_safe_fix b
  | RStar a | RPlus a | ROpt a => eoi_safe_fix a
  | ROr a b | RDiff a b => eoi_safe_fix a && eoi_safe_fix b
  | _ => true
  end.

Lemma ends_eoi_fix : forall r lv, ends_eoi lv r = true -> ends_with_eoi_fix r = true.
Proof.
  induction r; intros lv; rewrite ends_eoi_eq; destruct (prec _ <? lv); simpl;
    try (intros; discriminate); eauto.
Qed.

Lemma eoi_safe_fix_safe : forall r, eoi_safe_fix r = true -> eoi_safe' r = true.
Proof.
  induction r; intros H; simpl in *; try reflexivity; auto;
    repeat match goal with H : _ && _ = true |- _ => apply andb_true_iff in H; destruct H end;
    rewrite ?IHr1, ?IHr2 by auto; try reflexivity.
  destruct (ends_eoi 1 r1) eqn:E; [|reflexivity].
  apply ends_eoi_fix in E. rewrite E in H. discriminate.
Qed.

Print Assumptions roundtrip_min.
Print Assumptions roundtrip_min_top.
Print Assumptions roundtrip_any.
Print Assumptions roundtrip_any_top.
Print Assumptions parse_re_fuel_mono.
Print Assumptions eoi_free_safe.
Print Assumptions eoi_tail_safe.
Print Assumptions eoi_safe_fix_safe.
