(* Character-class membership tests as the generated code performs them (dfa/codegen.rs):
   a chain of range guards, or a binary-search table when a transition has more than
   MAX_GUARD_SIZE ranges; plus the decision procedure used to compare two range lists on every
   scalar value (C13). Proofs in CharClassProofs.v. *)
From LexVerif Require Import Base.

Definition pairs := list (N * N).

Definition in_pair (p : N * N) (c : N) : bool := (fst p <=? c)%N && (c <=? snd p)%N.

(* x == a   or   (a..=b).contains(&x), joined by || : inclusive_range_contains *)
Definition guard_one (p : N * N) (c : N) : bool :=
  if (fst p =? snd p)%N then (c =? fst p)%N else in_pair p c.

Definition guard_chain (t : pairs) (c : N) : bool := existsb (fun p => guard_one p c) t.

Definition in_pairs (t : pairs) (c : N) : bool := existsb (fun p => in_pair p c) t.

(* The comparator closure of the generated `binary_search` function. *)
Inductive ordering := Less | Equal | Greater.
Definition bs_cmp (c : N) (p : N * N) : ordering :=
  match (c ?= fst p)%N with
  | Gt => if (c <=? snd p)%N then Equal else Less
  | Eq => Equal
  | Lt => Greater
  end.

(* slice::binary_search_by of the Rust standard library (1.95: the loop halves [size] and keeps
   [base]); modelled, not verified. [fuel] = initial size suffices because size strictly
   decreases while it is > 1. *)
Fixpoint bs_loop (fuel : nat) (t : pairs) (c : N) (base size : nat) : nat :=
  match fuel with
  | O => base
  | S fuel' =>
      if Nat.leb size 1 then base
      else
        let half := Nat.div2 size in
        let mid := base + half in
        let cmp := bs_cmp c (nth mid t (0, 0)%N) in
        let base' := match cmp with Greater => base | _ => mid end in
        bs_loop fuel' t c base' (size - half)
  end.

Definition binary_search (t : pairs) (c : N) : bool :=
  match t with
  | [] => false
  | _ =>
      let base := bs_loop (length t) t c 0 (length t) in
      match bs_cmp c (nth base t (0, 0)%N) with Equal => true | _ => false end
  end.

(* Sorted, disjoint, non-inverted. *)
Fixpoint pairs_wf_from (lb : option N) (t : pairs) : bool :=
  match t with
  | [] => true
  | (a, b) :: t' =>
      (a <=? b)%N && (match lb with None => true | Some x => (x <? a)%N end)
      && pairs_wf_from (Some b) t'
  end.
Definition pairs_wf (t : pairs) : bool := pairs_wf_from None t.

Definition MAX_GUARD_SIZE_default : nat := 9.

(* The membership test the generated lexer performs for a transition with range list [t]. *)
Definition compiled_member (max_guard : nat) (t : pairs) (c : N) : bool :=
  if Nat.ltb max_guard (length t) then binary_search t c else guard_chain t c.

(* ---- deciding "two range lists agree on every scalar value" by checking breakpoints ---- *)

Definition breakpoints (t : pairs) : list N :=
  flat_map (fun p => [fst p; (snd p + 1)%N]) t.

Definition agree_on_scalars (t o : pairs) : bool :=
  forallb (fun b => negb (is_scalar b) || Bool.eqb (in_pairs t b) (in_pairs o b))
          (0%N :: (SURR_LO :: (SURR_HI + 1)%N :: breakpoints t ++ breakpoints o)).

(* first scalar breakpoint at which they differ: the replay when a table is wrong *)
Definition first_difference (t o : pairs) : option N :=
  find (fun b => is_scalar b && negb (Bool.eqb (in_pairs t b) (in_pairs o b)))
       (0%N :: (SURR_LO :: (SURR_HI + 1)%N :: breakpoints t ++ breakpoints o)).

Definition all_scalar_endpoints (t : pairs) : bool :=
  forallb (fun p => is_scalar (fst p) && is_scalar (snd p)) t.
