(* Reference semantics (DESIGN.md section 4): the language a regex denotes, by the textbook
   inductive definition over symbols Chr c / Eoi, for closed regexes (variables expanded).
   This file is meant to be read; it contains no automata and no range maps. *)
From LexVerif Require Import Base CharClass Regex.

Inductive sym := Chr (c : N) | Eoi.

Section Spec.
Variable benv : builtin_env.

(* Is the closed regex a character class, and if so which characters does it contain?
   Classes: char, bracket set, `_`, built-in, `|` of classes, `#` of classes. *)
Fixpoint is_class (r : regex) : bool :=
  match r with
  | RChar _ | RCharSet _ | RAny => true
  | RBuiltin n => match lookup_builtin n benv with Some _ => true | None => false end
  | ROr a b | RDiff a b => is_class a && is_class b
  | _ => false
  end.

Fixpoint cmem (r : regex) (c : N) : bool :=
  match r with
  | RChar a => (c =? a)%N
  | RCharSet l => existsb (fun x => cor_mem x c) l
  | RAny => (c <=? CHAR_MAX)%N
  | RBuiltin n => match lookup_builtin n benv with Some t => in_pairs t c | None => false end
  | ROr a b => cmem a c || cmem b c
  | RDiff a b => cmem a c && negb (cmem b c)
  | _ => false
  end.

Inductive lang : regex -> list sym -> Prop :=
| LBuiltin n c : cmem (RBuiltin n) c = true -> lang (RBuiltin n) [Chr c]
| LChar c : lang (RChar c) [Chr c]
| LString s : lang (RString s) (map Chr s)
| LCharSet l c : cmem (RCharSet l) c = true -> lang (RCharSet l) [Chr c]
| LStar0 r : lang (RStar r) []
| LStarS r u v : lang r u -> lang (RStar r) v -> lang (RStar r) (u ++ v)
| LPlus r u v : lang r u -> lang (RStar r) v -> lang (RPlus r) (u ++ v)
| LOpt0 r : lang (ROpt r) []
| LOpt1 r u : lang r u -> lang (ROpt r) u
| LCat r1 r2 u v : lang r1 u -> lang r2 v -> lang (RCat r1 r2) (u ++ v)
| LOrL r1 r2 u : lang r1 u -> lang (ROr r1 r2) u
| LOrR r1 r2 u : lang r2 u -> lang (ROr r1 r2) u
| LAny c : (c <= CHAR_MAX)%N -> lang RAny [Chr c]
| LEoi : lang REoi [Eoi]
| LDiff r1 r2 c : is_class r1 = true -> is_class r2 = true ->
                  cmem (RDiff r1 r2) c = true -> lang (RDiff r1 r2) [Chr c].

End Spec.
