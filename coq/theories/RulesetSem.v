(* Middle interface between the semantic layer (NFA/DFA of one rule set vs derivatives of its
   rules) and the structural layer (add_dfa / update_backtracks / simplify / codegen).
   Definitions only. *)
From LexVerif Require Import Base CharClass RangeMap Regex Spec SpecExec LexSpec Nfa Dfa NfaToDfa NfaSem Codegen.

Section RulesetSem.
Variable benv : builtin_env.
Variable rules : list crule.               (* the closed rules of one rule set, in order *)
Variable cidx : nat -> option nat.         (* action index -> right-context index *)
Variable d : dfa nat.                      (* the rule set's own DFA (output of nfa_to_dfa) *)

Definition rs_dafter (p : list N) (r : crule) : dre :=
  derivs benv (map Chr p) (of_regex benv (cr_re r)).
Definition rs_acc_of (r : crule) : accval := (cr_act r, cidx (cr_act r)).
Definition rs_accs_plain (p : list N) : list accval :=
  map rs_acc_of (filter (fun r => nullable (rs_dafter p r)) rules).
Definition rs_accs_eoi (p : list N) : list accval :=
  map rs_acc_of (filter (fun r => nullable (deriv benv Eoi (rs_dafter p r))) rules).
Definition rs_viable (p : list N) : bool := existsb (fun r => dnonempty benv (rs_dafter p r)) rules.
Definition rs_ext (p : list N) : bool := existsb (fun r => dhasword benv (rs_dafter p r)) rules.

Definition scalars (p : list N) : Prop := Forall (fun c => is_scalar c = true) p.
Definition run (p : list N) : option nat := dfa_run d 0 (map Chr p).

Record ruleset_sem : Prop := mkRulesetSem {
  (* shape *)
  rs_nonempty : 0 < length d;
  rs_targets : forall i x j, i < length d -> dfa_next (dget d i) x = Some j -> j < length d;
  rs_succ_targets : forall i j, i < length d -> In j (successors (dget d i)) -> j < length d;
  rs_init : forall i, i < length d -> (d_init (dget d i) = true <-> i = 0);
  (* nothing enters state 0, and its predecessor set is empty *)
  rs_no_back : forall i j, i < length d -> In j (successors (dget d i)) -> j <> 0;
  rs_preds0 : d_preds (dget d 0) = [];
  (* predecessor sets are exact *)
  rs_preds : forall i j, i < length d -> j < length d ->
      (In i (d_preds (dget d j)) <-> In j (successors (dget d i)));
  rs_ranges_wf : forall i, i < length d -> wf (d_ranges (dget d i)) = true;
  rs_ranges_max : forall i r, i < length d -> In r (d_ranges (dget d i)) -> (r_hi r <= CHAR_MAX)%N;
  rs_flags0 : forall i, i < length d -> d_bt (dget d i) = false;
  (* semantics, for words of scalar values *)
  rs_run_viable : forall p, scalars p -> p <> [] ->
      ((exists i, run p = Some i) <-> rs_viable p = true);
  rs_run_lt : forall p i, run p = Some i -> i < length d;
  rs_acc : forall p i, scalars p -> run p = Some i -> d_acc (dget d i) = rs_accs_plain p;
  rs_ext_iff : forall p i, scalars p -> p <> [] -> run p = Some i ->
      (has_no_transitions (dget d i) = false <-> rs_ext p = true);
  rs_eoi : forall p i, scalars p -> run p = Some i ->
      match d_eoi (dget d i) with
      | None => rs_accs_eoi p = []
      | Some j => j < length d /\ j <> 0 /\ has_no_transitions (dget d j) = true /\
                  d_acc (dget d j) = rs_accs_eoi p
      end;
  (* the `_` target of a state is "below" every character target of that state *)
  rs_any_below : forall p i c j a, scalars p -> run p = Some i -> is_scalar c = true ->
      dfa_char_next (dget d i) c = Some j -> d_any (dget d i) = Some a ->
      has_no_transitions (dget d j) = true ->
      has_no_transitions (dget d a) = true /\ forall x, In x (d_acc (dget d a)) -> In x (d_acc (dget d j))
}.

End RulesetSem.

(* right-context automata: the generated context function decides LexSpec.ctx_ok *)
Definition ctx_sem (benv : builtin_env) (max_guard : nat) (cre : regex) (d : dfa nat) : Prop :=
  forall rest, Forall (fun c => is_scalar c = true) rest ->
    ctx_run max_guard d 0 rest = ctx_holds_d benv (of_regex benv cre) rest.
