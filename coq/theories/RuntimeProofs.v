(* The generated lexer's run-time loop (Runtime.next on a Codegen.program) simulates the
   reference semantics (LexSpec.spec_next), assuming the scanner interface ScanIface.scan_ok. *)
From Coq Require Import List NArith Bool Arith Lia PArith Pnat.
From LexVerif Require Import Base CharClass RangeMap Regex Spec SpecExec SpecExecProofs LexSpec
  Nfa Dfa Codegen BacktrackProofs Runtime ScanIface.


(* ==================================================================================== *)
(* Layer (i): bytes, locations, slices                                                   *)
(* ==================================================================================== *)

Definition bytes (p : list N) : N := fold_right (fun c a => (utf8_len c + a)%N) 0%N p.

Lemma utf8_len_pos : forall c, (1 <= utf8_len c)%N.
Proof.
  intro c. unfold utf8_len.
  destruct (c <? 128)%N; [lia|]. destruct (c <? 2048)%N; [lia|].
  destruct (c <? 65536)%N; lia.
Qed.

Lemma bytes_cons : forall c a, bytes (c :: a) = (utf8_len c + bytes a)%N.
Proof. reflexivity. Qed.

Lemma bytes_app : forall a b, bytes (a ++ b) = (bytes a + bytes b)%N.
Proof.
  induction a as [|c a IH]; intro b; cbn [app].
  - cbn. lia.
  - rewrite !bytes_cons, IH. lia.
Qed.

Lemma skip_bytes_0 : forall s, skip_bytes s 0 = Some s.
Proof. destruct s; reflexivity. Qed.

Lemma take_bytes_0 : forall s, take_bytes s 0 = Some [].
Proof. destruct s; reflexivity. Qed.

Lemma skip_bytes_app : forall a b, skip_bytes (a ++ b) (bytes a) = Some b.
Proof.
  induction a as [|c a IH]; intro b.
  - apply skip_bytes_0.
  - rewrite bytes_cons. cbn [app skip_bytes].
    pose proof (utf8_len_pos c) as Hc.
    destruct (N.eqb_spec (utf8_len c + bytes a) 0) as [E|_]; [lia|].
    destruct (N.leb_spec (utf8_len c) (utf8_len c + bytes a)) as [_|E]; [|lia].
    replace (utf8_len c + bytes a - utf8_len c)%N with (bytes a) by lia. apply IH.
Qed.

Lemma take_bytes_app : forall a b, take_bytes (a ++ b) (bytes a) = Some a.
Proof.
  induction a as [|c a IH]; intro b.
  - apply take_bytes_0.
  - rewrite bytes_cons. cbn [app take_bytes].
    pose proof (utf8_len_pos c) as Hc.
    destruct (N.eqb_spec (utf8_len c + bytes a) 0) as [E|_]; [lia|].
    destruct (N.leb_spec (utf8_len c) (utf8_len c + bytes a)) as [_|E]; [|lia].
    replace (utf8_len c + bytes a - utf8_len c)%N with (bytes a) by lia. rewrite IH. reflexivity.
Qed.

Lemma slice_bytes_mid : forall pre m post,
  slice_bytes (pre ++ m ++ post) (bytes pre) (bytes pre + bytes m) = Some m.
Proof.
  intros pre m post. unfold slice_bytes.
  destruct (N.ltb_spec (bytes pre + bytes m) (bytes pre)) as [E|_]; [lia|].
  rewrite skip_bytes_app.
  replace (bytes pre + bytes m - bytes pre)%N with (bytes m) by lia.
  apply take_bytes_app.
Qed.

Section LocFacts.
Variable width : N -> N.
Variable tab_width : N.

Lemma byte_idx_advance : forall l c,
  byte_idx (advance width tab_width l c) = (byte_idx l + utf8_len c)%N.
Proof.
  intros l c. unfold advance.
  destruct (c =? 10)%N; [reflexivity|]. destruct (c =? 9)%N; reflexivity.
Qed.

Lemma byte_idx_advance_all : forall p l,
  byte_idx (advance_all width tab_width l p) = (byte_idx l + bytes p)%N.
Proof.
  induction p as [|c p IH]; intro l; unfold advance_all in *; cbn [fold_left].
  - cbn. lia.
  - rewrite IH, byte_idx_advance, bytes_cons. lia.
Qed.

Lemma advance_all_app : forall a b l,
  advance_all width tab_width l (a ++ b) =
  advance_all width tab_width (advance_all width tab_width l a) b.
Proof. intros a b l. unfold advance_all. apply fold_left_app. Qed.

Lemma advance_all_snoc : forall a c l,
  advance_all width tab_width l (a ++ [c]) =
  advance width tab_width (advance_all width tab_width l a) c.
Proof. intros a c l. rewrite advance_all_app. reflexivity. Qed.

End LocFacts.

(* ==================================================================================== *)
(* list helpers                                                                          *)
(* ==================================================================================== *)

Lemma firstn_app_exact : forall {A} (a b : list A), firstn (length a) (a ++ b) = a.
Proof.
  intros A a b. rewrite firstn_app, Nat.sub_diag, firstn_all. cbn. apply app_nil_r.
Qed.

Lemma skipn_app_exact : forall {A} (a b : list A), skipn (length a) (a ++ b) = b.
Proof.
  intros A a b. rewrite skipn_app, Nat.sub_diag, skipn_all. reflexivity.
Qed.

Lemma firstn_S_snoc : forall {A} (p : list A) c rest,
  firstn (S (length p)) (p ++ c :: rest) = p ++ [c].
Proof.
  intros A p c rest. replace (p ++ c :: rest) with ((p ++ [c]) ++ rest)
    by (rewrite <- app_assoc; reflexivity).
  replace (S (length p)) with (length (p ++ [c])) by (rewrite app_length; cbn; lia).
  apply firstn_app_exact.
Qed.

Lemma skipn_S_snoc : forall {A} (p : list A) c rest,
  skipn (S (length p)) (p ++ c :: rest) = rest.
Proof.
  intros A p c rest. replace (p ++ c :: rest) with ((p ++ [c]) ++ rest)
    by (rewrite <- app_assoc; reflexivity).
  replace (S (length p)) with (length (p ++ [c])) by (rewrite app_length; cbn; lia).
  apply skipn_app_exact.
Qed.

Lemma find_app : forall {A} (f : A -> bool) l1 l2,
  find f (l1 ++ l2) = match find f l1 with Some x => Some x | None => find f l2 end.
Proof.
  intros A f l1 l2. induction l1 as [|x l1 IH]; [reflexivity|].
  cbn. destruct (f x); [reflexivity|exact IH].
Qed.

Lemma find_ext_in : forall {A} (f g : A -> bool) l,
  (forall x, In x l -> f x = g x) -> find f l = find g l.
Proof.
  intros A f g l H. induction l as [|x l IH]; [reflexivity|].
  cbn. rewrite (H x) by (left; reflexivity). destruct (g x); [reflexivity|].
  apply IH. intros y Hy. apply H. right. exact Hy.
Qed.

Lemma find_none_filter : forall {A} (f g : A -> bool) l,
  filter g l = [] -> (forall x, f x = true -> g x = true) -> find f l = None.
Proof.
  intros A f g l Hf Himp. induction l as [|x l IH]; [reflexivity|].
  cbn in *. destruct (g x) eqn:G; [discriminate|].
  destruct (f x) eqn:F; [rewrite (Himp x F) in G; discriminate|]. apply IH. exact Hf.
Qed.

Lemma existsb_filter_nil : forall {A} (f : A -> bool) l,
  existsb f l = false <-> filter f l = [].
Proof.
  intros A f l. induction l as [|x l IH]; cbn; [tauto|].
  destruct (f x); cbn; [split; discriminate|exact IH].
Qed.

(* ==================================================================================== *)
(* Layer (ii-a): derivative facts                                                        *)
(* ==================================================================================== *)

Section DerivFacts.
Variable benv : builtin_env.

Lemma derivs_app : forall u v d, derivs benv (u ++ v) d = derivs benv v (derivs benv u d).
Proof. intros u v d. unfold derivs. apply fold_left_app. Qed.

Lemma dlang_derivs : forall u d v, dlang benv (derivs benv u d) v <-> dlang benv d (u ++ v).
Proof.
  induction u as [|s u IH]; intros d v; [reflexivity|].
  change (derivs benv (s :: u) d) with (derivs benv u (deriv benv s d)).
  rewrite IH. apply deriv_correct.
Qed.

Lemma dhasword_dnonempty : forall d, dhasword benv d = true -> dnonempty benv d = true.
Proof.
  intros d H. apply dhasword_correct in H as (w & _ & Hw).
  apply dnonempty_correct. eauto.
Qed.

Lemma dnonempty_derivs : forall u d,
  dnonempty benv (derivs benv u d) = true -> dnonempty benv d = true.
Proof.
  intros u d H. apply dnonempty_correct in H as (w & Hw).
  apply dlang_derivs in Hw. apply dnonempty_correct. eauto.
Qed.

Lemma dnonempty_deriv : forall s d,
  dnonempty benv (deriv benv s d) = true -> dnonempty benv d = true.
Proof. intros s d. apply (dnonempty_derivs [s]). Qed.

Lemma nullable_dnonempty : forall d, nullable d = true -> dnonempty benv d = true.
Proof.
  intros d H. apply (nullable_correct benv) in H. apply dnonempty_correct. eauto.
Qed.

Lemma nullable_derivs_dnonempty : forall u d,
  nullable (derivs benv u d) = true -> dnonempty benv d = true.
Proof. intros u d H. apply (dnonempty_derivs u). apply nullable_dnonempty. exact H. Qed.

Lemma nullable_derivs_dhasword : forall u d,
  u <> [] -> nullable (derivs benv u d) = true -> dhasword benv d = true.
Proof.
  intros u d Hu H. apply derivs_correct in H. apply dhasword_correct. eauto.
Qed.

(* a viable, non-extensible derivative is nullable *)
Lemma nonempty_noword_nullable : forall d,
  dnonempty benv d = true -> dhasword benv d = false -> nullable d = true.
Proof.
  intros d Hn Hw. apply dnonempty_correct in Hn as (w & Hd).
  destruct w as [|s w].
  - apply (nullable_correct benv). exact Hd.
  - assert (dhasword benv d = true) as E; [|congruence].
    apply dhasword_correct. exists (s :: w). split; [discriminate|exact Hd].
Qed.

End DerivFacts.

(* ==================================================================================== *)
(* Layer (ii-b): candidates; characterisation of rule_best / select / viable             *)
(* ==================================================================================== *)

Section Cands.
Variable benv : builtin_env.
Variable w : list N.               (* the unread input at the lexeme boundary *)

Lemma dafter_app : forall p q r,
  dafter benv (p ++ q) r = derivs benv (map Chr q) (dafter benv p r).
Proof. intros p q r. unfold dafter. rewrite map_app, derivs_app. reflexivity. Qed.

Lemma dafter_snoc : forall p c r,
  dafter benv (p ++ [c]) r = deriv benv (Chr c) (dafter benv p r).
Proof. intros p c r. rewrite dafter_app. reflexivity. Qed.

Lemma dafter_nil : forall r, dafter benv [] r = of_regex benv (cr_re r).
Proof. reflexivity. Qed.

(* rule r matches the first j characters of w (plainly), its right context holds after them *)
Definition plain_ok (j : nat) (r : crule) : bool :=
  nullable (dafter benv (firstn j w) r) && ctx_ok benv (cr_ctx r) (skipn j w).
(* rule r matches all of w followed by end-of-input *)
Definition eoi_ok (r : crule) : bool :=
  nullable (deriv benv Eoi (dafter benv w r)) && ctx_ok benv (cr_ctx r) [].

Lemma plain_ok_at : forall p rest r, w = p ++ rest ->
  plain_ok (length p) r = nullable (dafter benv p r) && ctx_ok benv (cr_ctx r) rest.
Proof.
  intros p rest r Hw. unfold plain_ok. rewrite Hw, firstn_app_exact, skipn_app_exact. reflexivity.
Qed.

(* largest j in [1..n] with f j *)
Fixpoint lastj (f : nat -> bool) (n : nat) : option nat :=
  match n with
  | O => None
  | S m => if f (S m) then Some (S m) else lastj f m
  end.

Lemma lastj_some : forall f n j, lastj f n = Some j ->
  1 <= j <= n /\ f j = true /\ forall j', j < j' <= n -> f j' = false.
Proof.
  intros f n; induction n as [|n IH]; intros j H; cbn in H; [discriminate|].
  destruct (f (S n)) eqn:E.
  - inversion H; subst j. split; [lia|]. split; [exact E|]. intros j' Hj'. lia.
  - destruct (IH j H) as (Hb & Hf & Hm). split; [lia|]. split; [exact Hf|].
    intros j' Hj'. destruct (Nat.eq_dec j' (S n)) as [->|Hne]; [exact E|]. apply Hm. lia.
Qed.

Lemma lastj_none : forall f n, lastj f n = None -> forall j', 1 <= j' <= n -> f j' = false.
Proof.
  intros f n; induction n as [|n IH]; intros H j' Hj'; [lia|]. cbn in H.
  destruct (f (S n)) eqn:E; [discriminate|].
  destruct (Nat.eq_dec j' (S n)) as [->|Hne]; [exact E|]. apply IH; [exact H|lia].
Qed.

(* best plain candidate among the lengths 1..n: the longest, first rule *)
Fixpoint lastc (rs : list crule) (n : nat) : option (crule * nat) :=
  match n with
  | O => None
  | S m => match find (plain_ok (S m)) rs with
           | Some r => Some (r, S m)
           | None => lastc rs m
           end
  end.

Lemma lastc_bound : forall rs n r j, lastc rs n = Some (r, j) -> 1 <= j <= n.
Proof.
  intros rs n; induction n as [|n IH]; intros r j H; cbn in H; [discriminate|].
  destruct (find (plain_ok (S n)) rs).
  - inversion H; subst. lia.
  - apply IH in H. lia.
Qed.

Lemma lastc_stable : forall rs n m, m <= n ->
  (forall j, m < j <= n -> find (plain_ok j) rs = None) -> lastc rs n = lastc rs m.
Proof.
  intros rs n; induction n as [|n IH]; intros m Hm H.
  - replace m with 0 by lia. reflexivity.
  - destruct (Nat.eq_dec m (S n)) as [->|Hne]; [reflexivity|].
    cbn [lastc]. rewrite (H (S n)) by lia. apply IH; [lia|]. intros j Hj. apply H. lia.
Qed.

Lemma lastc_none : forall rs n,
  (forall j, 1 <= j <= n -> find (plain_ok j) rs = None) -> lastc rs n = None.
Proof.
  intros rs n H. rewrite (@lastc_stable rs n 0); [reflexivity|lia|].
  intros j Hj. apply H. lia.
Qed.

Lemma lastc_snoc : forall rs r n,
  lastc (rs ++ [r]) n =
  match lastc rs n, lastj (fun j => plain_ok j r) n with
  | None, None => None
  | Some x, None => Some x
  | None, Some j => Some (r, j)
  | Some (r0, j0), Some j => if j0 <? j then Some (r, j) else Some (r0, j0)
  end.
Proof.
  intros rs r n; induction n as [|n IH]; [reflexivity|].
  cbn [lastc lastj]. rewrite find_app. cbn [find].
  destruct (find (plain_ok (S n)) rs) as [x|] eqn:Ef.
  - destruct (plain_ok (S n) r).
    + rewrite Nat.ltb_irrefl. reflexivity.
    + destruct (lastj (fun j => plain_ok j r) n) as [j|] eqn:El; [|reflexivity].
      apply lastj_some in El. destruct (Nat.ltb_spec (S n) j); [lia|reflexivity].
  - destruct (plain_ok (S n) r) eqn:Ep.
    + destruct (lastc rs n) as [[r0 j0]|] eqn:Ec; [|reflexivity].
      apply lastc_bound in Ec. destruct (Nat.ltb_spec j0 (S n)); [reflexivity|lia].
    + exact IH.
Qed.

(* ---------- rule_best ---------- *)

Lemma rule_best_char : forall r rest p, w = p ++ rest ->
  rule_best benv (cr_ctx r) (dafter benv p r) (length p) rest =
  if eoi_ok r then Some (length w, true)
  else match lastj (fun j => plain_ok j r) (length w) with
       | Some j => if length p <=? j then Some (j, false) else None
       | None => None
       end.
Proof.
  intros r rest; induction rest as [|c rest IH]; intros p Hw.
  - rewrite app_nil_r in Hw. subst p. cbn [rule_best]. unfold eoi_ok.
    destruct (nullable (deriv benv Eoi (dafter benv w r)) && ctx_ok benv (cr_ctx r) []);
      [reflexivity|].
    destruct (length w) as [|m] eqn:El; [reflexivity|].
    cbn [lastj Nat.eqb negb andb].
    assert (Hp : plain_ok (S m) r = nullable (dafter benv w r) && ctx_ok benv (cr_ctx r) []).
    { rewrite <- El. apply plain_ok_at. rewrite app_nil_r. reflexivity. }
    rewrite Hp.
    destruct (nullable (dafter benv w r) && ctx_ok benv (cr_ctx r) []).
    + rewrite Nat.leb_refl. reflexivity.
    + destruct (lastj (fun j => plain_ok j r) m) as [j|] eqn:E; [|reflexivity].
      apply lastj_some in E. destruct (Nat.leb_spec (S m) j); [lia|reflexivity].
  - cbn [rule_best]. rewrite <- dafter_snoc.
    replace (S (length p)) with (length (p ++ [c])) by (rewrite app_length; cbn; lia).
    rewrite (IH (p ++ [c])) by (rewrite <- app_assoc; exact Hw).
    destruct (eoi_ok r); [reflexivity|].
    rewrite <- andb_assoc, <- (plain_ok_at p (c :: rest) r Hw).
    assert (Hlen : length p < length w) by (rewrite Hw, app_length; cbn; lia).
    rewrite app_length; cbn [length]. rewrite Nat.add_1_r.
    destruct (lastj (fun j => plain_ok j r) (length w)) as [j|] eqn:E.
    + apply lastj_some in E. destruct E as (Hb & Hf & Hm).
      destruct (Nat.leb_spec (S (length p)) j) as [H1|H1].
      * destruct (Nat.leb_spec (length p) j); [reflexivity|lia].
      * destruct (Nat.leb_spec (length p) j) as [H2|H2].
        -- assert (j = length p) by lia. subst j. rewrite Hf.
           destruct (length p =? 0) eqn:E0; [apply Nat.eqb_eq in E0; lia|]. reflexivity.
        -- rewrite (Hm (length p)) by lia. rewrite andb_false_r. reflexivity.
    + destruct (length p) as [|m] eqn:Elp; [reflexivity|].
      rewrite (lastj_none _ _ E (S m)) by lia. rewrite andb_false_r. reflexivity.
Qed.

Lemma rule_best_0 : forall r,
  rule_best benv (cr_ctx r) (of_regex benv (cr_re r)) 0 w =
  if eoi_ok r then Some (length w, true)
  else option_map (fun j => (j, false)) (lastj (fun j => plain_ok j r) (length w)).
Proof.
  intro r. rewrite <- dafter_nil. change 0 with (length (@nil N)).
  rewrite (rule_best_char r w []) by reflexivity.
  destruct (eoi_ok r); [reflexivity|].
  destruct (lastj _ _); reflexivity.
Qed.

(* ---------- select ---------- *)

Definition sel_upd (best : option (crule * (nat * bool))) (r : crule) :=
  match rule_best benv (cr_ctx r) (of_regex benv (cr_re r)) 0 w with
  | None => best
  | Some m =>
      match best with
      | None => Some (r, m)
      | Some (_, mb) => if better m mb then Some (r, m) else best
      end
  end.

Lemma select_go_snoc : forall rs r best,
  select_go benv (rs ++ [r]) w best = sel_upd (select_go benv rs w best) r.
Proof.
  induction rs as [|x rs IH]; intros r best.
  - cbn [app select_go]. unfold sel_upd. reflexivity.
  - cbn [app select_go]. apply IH.
Qed.

Definition sel_fn (rs : list crule) : option (crule * (nat * bool)) :=
  match find eoi_ok rs with
  | Some r => Some (r, (length w, true))
  | None => option_map (fun x => (fst x, (snd x, false))) (lastc rs (length w))
  end.

Theorem select_char : forall rs, select benv rs w = sel_fn rs.
Proof.
  unfold select. induction rs as [|r rs IH] using rev_ind.
  - unfold sel_fn. cbn [find select_go]. rewrite lastc_none; [reflexivity|]. intros; reflexivity.
  - rewrite select_go_snoc, IH. unfold sel_upd, sel_fn. rewrite rule_best_0, find_app.
    cbn [find]. rewrite lastc_snoc.
    destruct (find eoi_ok rs) as [x|] eqn:Ef.
    + destruct (eoi_ok r).
      * unfold better; cbn [fst snd]. rewrite Nat.ltb_irrefl, Nat.eqb_refl. reflexivity.
      * destruct (lastj (fun j => plain_ok j r) (length w)) as [j|] eqn:El; [|reflexivity].
        cbn [option_map]. apply lastj_some in El.
        unfold better; cbn [fst snd]. destruct (Nat.ltb_spec (length w) j); [lia|].
        rewrite andb_false_r. reflexivity.
    + destruct (eoi_ok r).
      * destruct (lastc rs (length w)) as [[r0 j0]|] eqn:Ec; [|reflexivity].
        cbn [option_map fst snd]. apply lastc_bound in Ec.
        unfold better; cbn [fst snd].
        destruct (Nat.ltb_spec j0 (length w)) as [H|H]; [reflexivity|].
        assert (length w = j0) as -> by lia. rewrite Nat.eqb_refl. reflexivity.
      * destruct (lastj (fun j => plain_ok j r) (length w)) as [j|] eqn:El;
          destruct (lastc rs (length w)) as [[r0 j0]|] eqn:Ec; cbn [option_map fst snd];
          try reflexivity.
        unfold better; cbn [fst snd]. rewrite andb_false_r, orb_false_r.
        destruct (j0 <? j); reflexivity.
Qed.

(* ---------- viable ---------- *)

Definition vb (rs : list crule) (p : list N) : bool :=
  existsb (dnonempty benv) (map (dafter benv p) rs).
Definition eb (rs : list crule) (p : list N) : bool :=
  existsb (dhasword benv) (map (dafter benv p) rs).

Lemma vb_prefix : forall rs p q, vb rs (p ++ q) = true -> vb rs p = true.
Proof.
  intros rs p q H. unfold vb in *. rewrite existsb_exists in *.
  destruct H as (d & Hin & Hd). apply in_map_iff in Hin as (r & <- & Hr).
  exists (dafter benv p r). split; [apply in_map; exact Hr|].
  rewrite dafter_app in Hd. apply dnonempty_derivs in Hd. exact Hd.
Qed.

Lemma eb_vb : forall rs p, eb rs p = true -> vb rs p = true.
Proof.
  intros rs p H. unfold vb, eb in *. rewrite existsb_exists in *.
  destruct H as (d & Hin & Hd). exists d. split; [exact Hin|]. apply dhasword_dnonempty. exact Hd.
Qed.

Lemma filter_deriv_filter : forall c (ds : list dre),
  filter (dnonempty benv) (map (deriv benv (Chr c)) (filter (dnonempty benv) ds)) =
  filter (dnonempty benv) (map (deriv benv (Chr c)) ds).
Proof.
  intros c ds; induction ds as [|d ds IH]; [reflexivity|]. cbn [filter map].
  destruct (dnonempty benv d) eqn:E.
  - cbn [map filter]. rewrite IH. reflexivity.
  - rewrite IH. destruct (dnonempty benv (deriv benv (Chr c) d)) eqn:E2; [|reflexivity].
    apply dnonempty_deriv in E2. congruence.
Qed.

Lemma existsb_hasword_filter : forall (ds : list dre),
  existsb (dhasword benv) (filter (dnonempty benv) ds) = existsb (dhasword benv) ds.
Proof.
  induction ds as [|d ds IH]; [reflexivity|]. cbn [filter existsb].
  destruct (dnonempty benv d) eqn:E.
  - cbn [existsb]. rewrite IH. reflexivity.
  - rewrite IH. destruct (dhasword benv d) eqn:E2; [|reflexivity].
    apply dhasword_dnonempty in E2. congruence.
Qed.

Lemma viable_go_char : forall rs kv,
  kv <= length w ->
  (kv <> 0 -> vb rs (firstn kv w) = true) ->
  (kv < length w -> vb rs (firstn (S kv) w) = false) ->
  forall rest p, w = p ++ rest -> length p <= kv ->
  viable_go benv (filter (dnonempty benv) (map (dafter benv p) rs)) (length p) rest =
  (kv, eb rs (firstn kv w)).
Proof.
  intros rs kv Hle Hv Hnv rest; induction rest as [|c rest IH]; intros p Hw Hp.
  - cbn [viable_go]. rewrite app_nil_r in Hw. subst p.
    assert (kv = length w) as -> by lia. rewrite firstn_all, existsb_hasword_filter. reflexivity.
  - cbn [viable_go]. rewrite filter_deriv_filter, map_map.
    rewrite (map_ext _ (dafter benv (p ++ [c])))
      by (intro r; symmetry; apply dafter_snoc).
    assert (Hl : length w = length p + S (length rest)) by (rewrite Hw, app_length; reflexivity).
    assert (Hf : firstn (S (length p)) w = p ++ [c]) by (rewrite Hw; apply firstn_S_snoc).
    destruct (filter (dnonempty benv) (map (dafter benv (p ++ [c])) rs)) as [|d ds] eqn:Ef.
    + apply existsb_filter_nil in Ef. fold (vb rs (p ++ [c])) in Ef.
      assert (kv = length p) as ->.
      { destruct (Nat.eq_dec kv (length p)) as [e|ne]; [exact e|]. exfalso.
        assert (Hk : vb rs (firstn kv w) = true) by (apply Hv; lia).
        rewrite <- (firstn_skipn (S (length p)) (firstn kv w)) in Hk.
        apply vb_prefix in Hk. rewrite firstn_firstn in Hk.
        replace (Nat.min (S (length p)) kv) with (S (length p)) in Hk by lia.
        rewrite Hf in Hk. congruence. }
      replace (firstn (length p) w) with p by (rewrite Hw, firstn_app_exact; reflexivity).
      rewrite existsb_hasword_filter. reflexivity.
    + rewrite <- Ef.
      assert (Hvb : vb rs (p ++ [c]) = true).
      { unfold vb. destruct (existsb (dnonempty benv) (map (dafter benv (p ++ [c])) rs)) eqn:E;
          [reflexivity|]. apply existsb_filter_nil in E. rewrite E in Ef. discriminate. }
      replace (S (length p)) with (length (p ++ [c])) by (rewrite app_length; cbn; lia).
      apply IH.
      * rewrite <- app_assoc. exact Hw.
      * rewrite app_length; cbn [length].
        destruct (Nat.eq_dec kv (length p)) as [e|ne]; [|lia]. exfalso.
        rewrite e, Hf in Hnv. rewrite Hnv in Hvb; [discriminate|lia].
Qed.

Theorem viable_char : forall rs kv,
  kv <= length w ->
  (kv <> 0 -> vb rs (firstn kv w) = true) ->
  (kv < length w -> vb rs (firstn (S kv) w) = false) ->
  viable benv rs w = (kv, eb rs (firstn kv w)).
Proof.
  intros rs kv H1 H2 H3. unfold viable.
  rewrite <- (map_map (fun r => of_regex benv (cr_re r)) (fun d => d)), map_id.
  change (map (fun r => of_regex benv (cr_re r)) rs) with (map (dafter benv []) rs).
  apply (@viable_go_char rs kv H1 H2 H3 w []); [reflexivity|cbn; lia].
Qed.

(* no candidates beyond a non-viable / non-extensible prefix *)
Lemma plain_ok_viable : forall rs j r, In r rs -> plain_ok j r = true -> vb rs (firstn j w) = true.
Proof.
  intros rs j r Hin H. unfold plain_ok in H. apply andb_true_iff in H as [H _].
  unfold vb. apply existsb_exists. exists (dafter benv (firstn j w) r).
  split; [apply in_map; exact Hin|]. apply nullable_dnonempty. exact H.
Qed.

Lemma eoi_ok_hasword : forall rs p q r, In r rs -> w = p ++ q -> eoi_ok r = true -> eb rs p = true.
Proof.
  intros rs p q r Hin Hw H. unfold eoi_ok in H. apply andb_true_iff in H as [H _].
  unfold eb. apply existsb_exists. exists (dafter benv p r).
  split; [apply in_map; exact Hin|].
  rewrite Hw, dafter_app in H.
  change (deriv benv Eoi (derivs benv (map Chr q) (dafter benv p r)))
    with (derivs benv [Eoi] (derivs benv (map Chr q) (dafter benv p r))) in H.
  rewrite <- derivs_app in H.
  apply nullable_derivs_dhasword in H; [exact H|]. destruct (map Chr q); discriminate.
Qed.

Lemma plain_ok_hasword : forall rs p j r, In r rs -> length p < j <= length w ->
  firstn (length p) w = p -> plain_ok j r = true -> eb rs p = true.
Proof.
  intros rs p j r Hin Hj Hp H. unfold plain_ok in H. apply andb_true_iff in H as [H _].
  unfold eb. apply existsb_exists. exists (dafter benv p r).
  split; [apply in_map; exact Hin|].
  assert (E : firstn j w = p ++ skipn (length p) (firstn j w)).
  { rewrite <- (firstn_skipn (length p) (firstn j w)) at 1. f_equal.
    rewrite firstn_firstn. replace (Nat.min (length p) j) with (length p) by lia. exact Hp. }
  rewrite E, dafter_app in H.
  apply nullable_derivs_dhasword in H; [exact H|].
  intro En. apply map_eq_nil in En.
  apply (f_equal (@length N)) in En. rewrite skipn_length, firstn_length in En. cbn in En. lia.
Qed.

End Cands.

Lemma find_none_intro : forall {A} (f : A -> bool) l,
  (forall x, In x l -> f x = false) -> find f l = None.
Proof.
  intros A f l H. induction l as [|x l IH]; [reflexivity|]. cbn.
  rewrite (H x (or_introl eq_refl)). apply IH. intros y Hy. apply H. right. exact Hy.
Qed.

Lemma firstn_split : forall {A} j m (q : list A), m <= j ->
  firstn j q = firstn m q ++ skipn m (firstn j q).
Proof.
  intros A j m q H. rewrite <- (firstn_skipn m (firstn j q)) at 1. f_equal.
  rewrite firstn_firstn. f_equal. lia.
Qed.

Section Cands2.
Variable benv : builtin_env.
Variable w : list N.

Lemma vb_longer : forall rs p q, vb benv rs (p ++ q) = true -> q <> [] -> eb benv rs p = true.
Proof.
  intros rs p q H Hq. unfold vb, eb in *. rewrite existsb_exists in *.
  destruct H as (d & Hin & Hd). apply in_map_iff in Hin as (r & <- & Hr).
  exists (dafter benv p r). split; [apply in_map; exact Hr|].
  rewrite dafter_app in Hd. apply dnonempty_correct in Hd as (u & Hu).
  apply dlang_derivs in Hu. apply dhasword_correct. exists (map Chr q ++ u).
  split; [|exact Hu]. destruct q; [contradiction|discriminate].
Qed.

Lemma nocand_dead : forall rs p c rest',
  w = p ++ c :: rest' -> vb benv rs (p ++ [c]) = false ->
  find (eoi_ok benv w) rs = None /\
  forall j, length p < j <= length w -> find (plain_ok benv w j) rs = None.
Proof.
  intros rs p c rest' Hw Hv.
  assert (Hw' : w = (p ++ [c]) ++ rest') by (rewrite <- app_assoc; exact Hw).
  split.
  - apply find_none_intro. intros r Hr. destruct (eoi_ok benv w r) eqn:E; [|reflexivity].
    apply (eoi_ok_hasword benv w rs (p ++ [c]) rest' r Hr Hw') in E.
    apply eb_vb in E. congruence.
  - intros j Hj. apply find_none_intro. intros r Hr.
    destruct (plain_ok benv w j r) eqn:E; [|reflexivity].
    apply (plain_ok_viable benv w rs j r Hr) in E.
    rewrite (firstn_split j (S (length p)) w) in E by lia.
    apply vb_prefix in E. rewrite Hw, firstn_S_snoc in E. congruence.
Qed.

Lemma nocand_noext : forall rs p c rest',
  w = p ++ c :: rest' -> eb benv rs (p ++ [c]) = false ->
  find (eoi_ok benv w) rs = None /\
  forall j, S (length p) < j <= length w -> find (plain_ok benv w j) rs = None.
Proof.
  intros rs p c rest' Hw Hv.
  assert (Hw' : w = (p ++ [c]) ++ rest') by (rewrite <- app_assoc; exact Hw).
  split.
  - apply find_none_intro. intros r Hr. destruct (eoi_ok benv w r) eqn:E; [|reflexivity].
    apply (eoi_ok_hasword benv w rs (p ++ [c]) rest' r Hr Hw') in E. congruence.
  - intros j Hj. apply find_none_intro. intros r Hr.
    destruct (plain_ok benv w j r) eqn:E; [|reflexivity].
    apply (plain_ok_hasword benv w rs (p ++ [c]) j r Hr) in E; [congruence| |].
    + rewrite app_length; cbn [length]. lia.
    + rewrite Hw', firstn_app_exact. reflexivity.
Qed.

End Cands2.

(* ==================================================================================== *)
(* Layer (iii): the simulation                                                           *)
(* ==================================================================================== *)

Local Arguments l_state {U}. Local Arguments l_done {U}. Local Arguments l_initial {U}.
Local Arguments l_user {U}. Local Arguments l_input {U}. Local Arguments l_iter {U}.
Local Arguments l_iter_loc {U}. Local Arguments l_mstart {U}. Local Arguments l_mend {U}.
Local Arguments l_last {U}. Local Arguments mkL {U}.
Local Arguments set_state {U}. Local Arguments set_done {U}. Local Arguments set_last {U}.
Local Arguments reset_match {U}. Local Arguments make_view {U}.
Local Arguments s_rest {U}. Local Arguments s_rs {U}. Local Arguments s_user {U}.
Local Arguments s_mstart {U}. Local Arguments s_pos {U}. Local Arguments s_mtext {U}.
Local Arguments s_ended {U}. Local Arguments mkS {U}.
Local Arguments SItem {T E U}. Local Arguments SCont {T E U}. Local Arguments SEnd {T E U}.
Local Arguments OItem {T E}. Local Arguments ONone {T E}. Local Arguments OPanic {T E}.

Local Arguments so_entry0 {benv prog rss cidx entry At} _.
Local Arguments so_entry_inj0 {benv prog rss cidx entry At} _.
Local Arguments so_arm0 {benv prog rss cidx entry At} _.
Local Arguments so_start0 {benv prog rss cidx entry At} _.
Local Arguments so_start {benv prog rss cidx entry At} _.
Local Arguments so_switch {benv prog rss cidx entry At} _.
Local Arguments so_nonzero {benv prog rss cidx entry At} _.
Local Arguments so_dispatch {benv prog rss cidx entry At} _.
Local Arguments so_not_nullable {benv prog rss cidx entry At} _.
Local Arguments so_acc {benv prog rss cidx entry At} _.
Local Arguments so_step_dead {benv prog rss cidx entry At} _.
Local Arguments so_step_goto {benv prog rss cidx entry At} _.
Local Arguments so_step_accept {benv prog rss cidx entry At} _.
Local Arguments so_quirk {benv prog rss cidx entry At} _.
Local Arguments so_eoi {benv prog rss cidx entry At} _.
Local Arguments so_bt {benv prog rss cidx entry At} _.
Local Arguments so_ctx_none {benv prog rss cidx entry At} _.
Local Arguments so_ctx_run {benv prog rss cidx entry At} _.

Lemma Forall_skipn : forall {A} (P : A -> Prop) n l, Forall P l -> Forall P (skipn n l).
Proof.
  intros A P n; induction n as [|n IH]; intros l H; [exact H|].
  destruct l as [|x l]; [exact H|]. cbn. apply IH. inversion H; assumption.
Qed.

Lemma iter_nat_1 : forall {St R} (f : St -> St + R) x, iter_nat 1 f x = f x.
Proof. intros St R f x. cbn. destruct (f x); reflexivity. Qed.

Lemma lexer_eta : forall {U} (l : lexer U),
  l = mkL (l_state l) (l_done l) (l_initial l) (l_user l) (l_input l) (l_iter l) (l_iter_loc l)
          (l_mstart l) (l_mend l) (l_last l).
Proof. intros U l. destruct l. reflexivity. Qed.

Section Sim.
Variable benv : builtin_env.
Variable width : N -> N.
Variable tab_width : N.
Variables T E U : Type.
Variable prog : program.
Variable rss : list (list crule).
Variable cidx : nat -> option nat.
Variable entry : nat -> nat.
Variable At : nat -> list N -> nat -> Prop.
Variable actions : nat -> action T E U.

Hypothesis SO : scan_ok benv prog rss cidx entry At.
Hypothesis switch_ok :
  forall a v u n, a_switch (actions a v u) = Some n -> n < length (p_switch prog).

Notation rstep := (step width tab_width T E U prog actions).
Notation rrun_action := (run_action T E U prog actions).
Notation adv_all := (advance_all width tab_width).
Notation scalar := (fun c : N => is_scalar c = true).

(* actions that do not look at match_(): needed only for the from_iter constructors, where
   the generated lexer slices the empty string *)
Definition text_blind : Prop :=
  forall a t1 t2 ms me pk u,
    actions a (mkView t1 ms me pk) u = actions a (mkView t2 ms me pk) u.

Definition view_ok (l : lexer U) (s : sstate U) : Prop :=
  match l_input l with
  | Some whole =>
      exists pre, whole = pre ++ s_mtext s ++ s_rest s /\
                  byte_idx (s_mstart s) = bytes pre /\
                  byte_idx (s_pos s) = (bytes pre + bytes (s_mtext s))%N
  | None => text_blind
  end.

(* the relation between a lexer and a specification state at a lexeme boundary *)
Record sim (l : lexer U) (s : sstate U) : Prop := mkSim {
  sim_iter : l_iter l = s_rest s;
  sim_user : l_user l = s_user s;
  sim_mstart : l_mstart l = s_mstart s;
  sim_mend : l_mend l = s_pos s;
  sim_done : l_done l = s_ended s;
  sim_state : l_state l = l_initial l;
  sim_arm : arm_lookup (p_arms prog) (l_initial l) = Some (entry (s_rs s));
  sim_rs : s_rs s = 0 \/ s_rs s < length rss;
  sim_last : l_last l = None;
  sim_view : view_ok l s;
  sim_scalar : Forall scalar (s_rest s)
}.

Arguments sim_iter {l s}.
Arguments sim_user {l s}.
Arguments sim_mstart {l s}.
Arguments sim_mend {l s}.
Arguments sim_done {l s}.
Arguments sim_state {l s}.
Arguments sim_arm {l s}.
Arguments sim_rs {l s}.
Arguments sim_last {l s}.
Arguments sim_view {l s}.
Arguments sim_scalar {l s}.

(* ---------- first_passing ---------- *)

Lemma ctx_passes_ok : forall kk (l : lexer U) r,
  In r (rules_of rss kk) -> Forall scalar (l_iter l) ->
  ctx_passes U prog l (cidx (cr_act r)) = ctx_ok benv (cr_ctx r) (l_iter l).
Proof.
  intros kk l r Hin Hsc. unfold ctx_passes.
  destruct (cidx (cr_act r)) as [i|] eqn:Ec.
  - apply (so_ctx_run SO kk r i Hin Ec). exact Hsc.
  - apply (so_ctx_none SO kk r Hin) in Ec. rewrite Ec. reflexivity.
Qed.

Lemma first_passing_find : forall kk (l : lexer U) (g : crule -> bool) rs,
  (forall r, In r rs -> In r (rules_of rss kk)) -> Forall scalar (l_iter l) ->
  first_passing U prog l (map (acc_of cidx) (filter g rs)) =
  option_map cr_act (find (fun r => g r && ctx_ok benv (cr_ctx r) (l_iter l)) rs).
Proof.
  intros kk l g rs; induction rs as [|r rs IH]; intros Hsub Hsc; [reflexivity|].
  cbn [filter find]. destruct (g r) eqn:Eg; cbn [andb].
  - cbn [map first_passing acc_of]. unfold acc_of at 1.
    rewrite (ctx_passes_ok kk l r (Hsub r (or_introl eq_refl)) Hsc).
    destruct (ctx_ok benv (cr_ctx r) (l_iter l)) eqn:Ec; [reflexivity|].
    destruct (cidx (cr_act r)) as [i|] eqn:Ei.
    + apply IH; [|exact Hsc]. intros r' Hr'. apply Hsub. right. exact Hr'.
    + apply (so_ctx_none SO kk r (Hsub r (or_introl eq_refl))) in Ei.
      rewrite Ei in Ec. discriminate.
  - apply IH; [|exact Hsc]. intros r' Hr'. apply Hsub. right. exact Hr'.
Qed.

Lemma first_passing_none_all : forall (l : lexer U) accs,
  first_passing U prog l accs = None ->
  forall a, In a accs -> ctx_passes U prog l (snd a) = false.
Proof.
  intros l accs; induction accs as [|[a ctx] accs IH]; intros H x Hx; [destruct Hx|].
  cbn [first_passing] in H. destruct (ctx_passes U prog l ctx) eqn:Ec; [discriminate|].
  destruct Hx as [<-|Hx]; [exact Ec|].
  destruct ctx as [i|]; [apply IH; assumption|]. discriminate.
Qed.

Lemma first_passing_all_none : forall (l : lexer U) accs,
  (forall a, In a accs -> ctx_passes U prog l (snd a) = false) ->
  first_passing U prog l accs = None.
Proof.
  intros l accs; induction accs as [|[a ctx] accs IH]; intros H; [reflexivity|].
  cbn [first_passing]. pose proof (H (a, ctx) (or_introl eq_refl)) as H0. cbn [snd] in H0. rewrite H0.
  destruct ctx as [i|].
  - apply IH. intros x Hx. apply H. right. exact Hx.
  - reflexivity.
Qed.

(* ---------- the character part of run_state ---------- *)

Definition st_default (stt : dstate trans) (l' : lexer U) :=
  match d_any stt with
  | Some t => do_trans T E U prog actions l' t (do_fail T E U prog actions stt)
  | None => do_fail T E U prog actions stt l'
  end.

Definition char_tail (stt : dstate trans) (l2 : lexer U) (c : N) :=
  match lookup_char (p_max_guard prog) stt c with
  | Some t => do_trans T E U prog actions l2 t (st_default stt)
  | None => st_default stt l2
  end.

Lemma char_tail_dead : forall stt l2 c,
  trans_of prog stt c = None -> char_tail stt l2 c = do_fail T E U prog actions stt l2.
Proof.
  intros stt l2 c H. unfold trans_of in H. unfold char_tail, st_default.
  destruct (lookup_char (p_max_guard prog) stt c); [discriminate|]. rewrite H. reflexivity.
Qed.

Lemma char_tail_goto : forall stt l2 c s',
  trans_of prog stt c = Some (TGoto s') ->
  char_tail stt l2 c =
  if set_mem s' (p_inlined prog) then inl (l2, CState s')
  else inl (set_state l2 (renumber (p_inlined prog) s'), CLoop).
Proof.
  intros stt l2 c s' H. unfold trans_of in H. unfold char_tail, st_default.
  destruct (lookup_char (p_max_guard prog) stt c) as [t|].
  - inversion H; subst t. reflexivity.
  - rewrite H. reflexivity.
Qed.

Lemma char_tail_accept : forall kk p σ l2 c accs,
  At kk p σ -> is_scalar c = true ->
  trans_of prog (dget (p_states prog) σ) c = Some (TAccept accs) ->
  char_tail (dget (p_states prog) σ) l2 c =
  match first_passing U prog l2 accs with
  | Some a => rrun_action (set_last l2 None) a
  | None => do_fail T E U prog actions (dget (p_states prog) σ) l2
  end.
Proof.
  intros kk p σ l2 c accs HAt Hc H. unfold trans_of in H. unfold char_tail.
  destruct (lookup_char (p_max_guard prog) (dget (p_states prog) σ) c) as [t|] eqn:El.
  - inversion H; subst t. cbn [do_trans]. unfold do_accept.
    destruct (first_passing U prog l2 accs) eqn:Ef; [reflexivity|].
    pose proof (so_quirk SO kk p σ c accs HAt Hc El) as Q. unfold st_default.
    destruct (d_any (dget (p_states prog) σ)) as [[n|accs']|]; [destruct Q| |reflexivity].
    cbn [do_trans]. unfold do_accept.
    rewrite first_passing_all_none; [reflexivity|].
    intros a Ha. apply (first_passing_none_all l2 accs Ef). apply Q. exact Ha.
  - unfold st_default. rewrite H. cbn [do_trans]. unfold do_accept. reflexivity.
Qed.

Lemma run_state_eq : forall σ (l : lexer U),
  run_state width tab_width T E U prog actions σ l =
  (let stt := dget (p_states prog) σ in
   let l1 := match first_passing U prog l (d_acc stt) with
             | Some a => set_last l (Some (l_mstart l, l_iter l, a, l_mend l))
             | None => l end in
   match read_char width tab_width U l1 with
   | (None, l2) =>
       let l3 := set_done l2 true in
       let eoi_default (l' : lexer U) :=
         if σ =? 0 then inr (ONone, l') else do_fail T E U prog actions stt l' in
       match d_eoi stt with
       | Some (TAccept accs) => do_accept T E U prog actions l3 accs eoi_default
       | Some (TGoto n) => inl (set_state l3 (renumber (p_inlined prog) n), CLoop)
       | None => eoi_default l3
       end
   | (Some c, l2) => char_tail stt l2 c
   end).
Proof. reflexivity. Qed.

(* ---------- one scan, from a boundary ---------- *)
Section Scan.
Variable l0 : lexer U.
Variable s : sstate U.
Hypothesis SIM : sim l0 s.
Hypothesis NE : s_ended s = false.

Notation k := (s_rs s).
Notation w := (s_rest s).
Notation rules := (rules_of rss (s_rs s)).

Definition matches (x : lexer U * ctl + outcome T E * lexer U) : Prop :=
  match spec_step benv width tab_width T E U rss actions s with
  | SItem i s' => exists l', x = inr (OItem i, l') /\ sim l' s'
  | SCont s' => exists l', x = inl (l', CLoop) /\ sim l' s'
  | SEnd s' => exists l', x = inr (ONone, l') /\ sim l' s'
  end.

(* the lexer positioned after the first j characters of w *)
Definition lx (st : nat) (il : Loc) (j : nat) (e : bool) : lexer U :=
  mkL st e (l_initial l0) (l_user l0) (l_input l0) (skipn j w) il
      (l_mstart l0) (adv_all (l_mend l0) (firstn j w)) None.

Lemma view_ok_keep : forall l' j rs' u' e',
  l_input l' = l_input l0 ->
  view_ok l' (mkS (skipn j w) rs' u' (s_mstart s) (adv_all (s_pos s) (firstn j w))
                  (s_mtext s ++ firstn j w) e').
Proof.
  intros l' j rs' u' e' Hin. pose proof (sim_view SIM) as V. unfold view_ok in *.
  rewrite Hin. destruct (l_input l0) as [whole|]; [|exact V].
  destruct V as (pre & Hw & Hs & Hp). exists pre. cbn.
  split; [|split].
  - rewrite <- app_assoc, firstn_skipn. exact Hw.
  - exact Hs.
  - rewrite byte_idx_advance_all, Hp, bytes_app. lia.
Qed.

Lemma view_ok_reset : forall l' j rs' u' e',
  l_input l' = l_input l0 ->
  view_ok l' (mkS (skipn j w) rs' u' (adv_all (s_pos s) (firstn j w))
                  (adv_all (s_pos s) (firstn j w)) [] e').
Proof.
  intros l' j rs' u' e' Hin. pose proof (sim_view SIM) as V. unfold view_ok in *.
  rewrite Hin. destruct (l_input l0) as [whole|]; [|exact V].
  destruct V as (pre & Hw & Hs & Hp). exists (pre ++ s_mtext s ++ firstn j w). cbn.
  split; [|split].
  - rewrite <- !app_assoc, firstn_skipn. exact Hw.
  - rewrite byte_idx_advance_all, Hp, !bytes_app. lia.
  - rewrite byte_idx_advance_all, Hp, !bytes_app. lia.
Qed.

Lemma make_view_lx : forall st il j e,
  exists vr, make_view (lx st il j e) = Ok vr /\
    forall a u, actions a vr u =
                actions a (mkView (s_mtext s ++ firstn j w) (s_mstart s)
                                  (adv_all (s_pos s) (firstn j w)) (hd_error (skipn j w))) u.
Proof.
  intros st il j e. pose proof (sim_view SIM) as V. unfold view_ok in V.
  unfold make_view, lx. cbn [l_input l_mstart l_mend l_iter].
  rewrite (sim_mstart SIM), (sim_mend SIM).
  destruct (l_input l0) as [whole|].
  - destruct V as (pre & Hw & Hs & Hp).
    assert (Hsl : slice_bytes whole (byte_idx (s_mstart s))
                    (byte_idx (adv_all (s_pos s) (firstn j w))) = Some (s_mtext s ++ firstn j w)).
    { rewrite byte_idx_advance_all, Hs, Hp.
      replace (bytes pre + bytes (s_mtext s) + bytes (firstn j w))%N
        with (bytes pre + bytes (s_mtext s ++ firstn j w))%N by (rewrite bytes_app; lia).
      rewrite Hw. rewrite <- (firstn_skipn j w) at 1.
      replace (pre ++ s_mtext s ++ firstn j w ++ skipn j w)
        with (pre ++ (s_mtext s ++ firstn j w) ++ skipn j w) by (rewrite <- !app_assoc; reflexivity).
      apply slice_bytes_mid. }
    rewrite Hsl. eexists. split; [reflexivity|]. intros; reflexivity.
  - eexists. split; [reflexivity|]. intros a u. apply V.
Qed.

Lemma spec_step_sel : forall r j e,
  select benv rules w = Some (r, (j, e)) ->
  spec_step benv width tab_width T E U rss actions s =
  (let p := firstn j w in
   let rest' := skipn j w in
   let pos' := adv_all (s_pos s) p in
   let text := s_mtext s ++ p in
   let v := mkView text (s_mstart s) pos' (hd_error rest') in
   let o := actions (cr_act r) v (s_user s) in
   let rs' := match a_switch o with Some n => n | None => s_rs s end in
   let start := if a_reset o then pos' else s_mstart s in
   match a_res o with
   | AContinue => SCont (mkS rest' rs' (a_user o) start pos' (if a_reset o then [] else text) e)
   | AReturn (inl t) => SItem (ITok start t pos') (mkS rest' rs' (a_user o) pos' pos' [] e)
   | AReturn (inr x) => SItem (ICustom x start) (mkS rest' rs' (a_user o) pos' pos' [] e)
   end).
Proof.
  intros r j e H. unfold spec_step. rewrite NE. unfold rules_of in H. rewrite H. reflexivity.
Qed.

Lemma action_case : forall st il r j e,
  select benv rules w = Some (r, (j, e)) ->
  matches (rrun_action (lx st il j e) (cr_act r)).
Proof.
  intros st il r j e Hsel. unfold matches. rewrite (spec_step_sel r j e Hsel). cbv zeta.
  destruct (make_view_lx st il j e) as (vr & Hmv & Hact).
  unfold run_action. rewrite Hmv. unfold lx.
  cbn [l_user l_state l_done l_initial l_input l_iter l_iter_loc l_mstart l_mend l_last].
  rewrite (sim_user SIM), (sim_mstart SIM), (sim_mend SIM), Hact.
  set (o := actions (cr_act r) _ (s_user s)).
  assert (Hsw : forall n, a_switch o = Some n ->
            n < length rss /\ exists nm v, nth_error (p_switch prog) n = Some (nm, v) /\
                                arm_lookup (p_arms prog) v = Some (entry n)).
  { intros n Hn. apply (so_switch SO). eapply switch_ok. exact Hn. }
  pose proof (sim_scalar SIM) as Hsc.
  assert (Hsc' : Forall scalar (skipn j w)) by (apply Forall_skipn; exact Hsc).
  destruct (a_switch o) as [n|] eqn:Esw.
  - destruct (Hsw n eq_refl) as (Hn & nm & v & Hnth & Harm).
    unfold switch_target. rewrite Hnth. cbn [snd].
    destruct (a_res o) as [|[t|x]]; eexists; (split; [reflexivity|]);
      (constructor; cbn; try reflexivity; try assumption; try (right; assumption);
       try (rewrite (sim_mstart SIM), (sim_mend SIM); reflexivity);
       try (rewrite (sim_mend SIM); reflexivity)).
    + destruct (a_reset o); [apply view_ok_reset|apply view_ok_keep]; reflexivity.
    + apply view_ok_reset; reflexivity.
    + apply view_ok_reset; reflexivity.
  - pose proof (sim_arm SIM) as Harm. pose proof (sim_rs SIM) as Hrs.
    destruct (a_res o) as [|[t|x]]; eexists; (split; [reflexivity|]);
      (constructor; cbn; try reflexivity; try assumption;
       try (rewrite (sim_mstart SIM), (sim_mend SIM); reflexivity);
       try (rewrite (sim_mend SIM); reflexivity)).
    + destruct (a_reset o); [apply view_ok_reset|apply view_ok_keep]; reflexivity.
    + apply view_ok_reset; reflexivity.
    + apply view_ok_reset; reflexivity.
Qed.

(* encoding of a remembered match (last_match) *)
Definition enc (x : crule * nat) : Loc * list N * nat * Loc :=
  (l_mstart l0, skipn (snd x) w, cr_act (fst x), adv_all (l_mend l0) (firstn (snd x) w)).

Lemma spec_step_err : forall kv ext,
  select benv rules w = None -> w <> [] -> viable benv rules w = (kv, ext) ->
  spec_step benv width tab_width T E U rss actions s =
  (let more := (Nat.eqb kv 0 || ext) in
   let n := if more then S kv else kv in
   let pos' := adv_all (s_pos s) (firstn n w) in
   SItem (IInvalid (s_mstart s))
         (mkS (skipn n w) 0 (s_user s) pos' pos' [] (more && Nat.ltb (length w) n))).
Proof.
  intros kv ext Hsel Hne Hv. unfold spec_step. rewrite NE. unfold rules_of in Hsel, Hv.
  rewrite Hsel. destruct (s_rest s) as [|c w'] eqn:Ew; [contradiction|].
  rewrite Hv. reflexivity.
Qed.

Lemma sim_error : forall il n dn,
  sim (mkL 0 dn 0 (l_user l0) (l_input l0) (skipn n w) il
           (adv_all (l_mend l0) (firstn n w)) (adv_all (l_mend l0) (firstn n w)) None)
      (mkS (skipn n w) 0 (s_user s) (adv_all (s_pos s) (firstn n w))
           (adv_all (s_pos s) (firstn n w)) [] dn).
Proof.
  intros il n dn.
  constructor; cbn; try reflexivity.
  - apply (sim_user SIM).
  - rewrite (sim_mend SIM). reflexivity.
  - rewrite (sim_mend SIM). reflexivity.
  - rewrite (so_entry0 SO). apply (so_arm0 SO).
  - left. reflexivity.
  - apply view_ok_reset. reflexivity.
  - apply Forall_skipn. apply (sim_scalar SIM).
Qed.

Lemma fail_case : forall stt st il n dn m kv ext,
  w <> [] ->
  find (eoi_ok benv w) rules = None ->
  lastc benv w rules (length w) = lastc benv w rules m ->
  (d_bt stt || is_accepting stt = false -> lastc benv w rules m = None) ->
  viable benv rules w = (kv, ext) ->
  n = (if (kv =? 0) || ext then S kv else kv) ->
  dn = ((kv =? 0) || ext) && (length w <? n) ->
  matches (do_fail T E U prog actions stt
     (mkL st dn (l_initial l0) (l_user l0) (l_input l0) (skipn n w) il (l_mstart l0)
          (adv_all (l_mend l0) (firstn n w)) (option_map enc (lastc benv w rules m)))).
Proof.
  intros stt st il n dn m kv ext Hne Heoi Hstab Hbt Hv Hn Hdn.
  assert (Hsel : select benv rules w =
                 option_map (fun x => (fst x, (snd x, false))) (lastc benv w rules m)).
  { rewrite select_char. unfold sel_fn. rewrite Heoi, Hstab. reflexivity. }
  destruct (lastc benv w rules m) as [[r j]|] eqn:Elast.
  - (* backtrack to the remembered match *)
    cbn [option_map fst snd] in Hsel.
    unfold do_fail. destruct (d_bt stt || is_accepting stt) eqn:Ebt;
      [|discriminate (Hbt eq_refl)].
    cbn [l_last option_map enc fst snd].
    exact (action_case st (adv_all (l_mend l0) (firstn j w)) r j false Hsel).
  - cbn [option_map] in Hsel. unfold matches.
    rewrite (spec_step_err kv ext Hsel Hne Hv). cbv zeta. rewrite <- Hn, <- Hdn.
    pose proof (sim_error il n dn) as Hs.
    unfold do_fail. cbn [l_last option_map].
    destruct (d_bt stt || is_accepting stt); cbn [l_mstart]; rewrite (sim_mstart SIM);
      eexists; (split; [reflexivity|]); exact Hs.
Qed.

(* end of input right at the boundary, nothing matches the empty rest *)
Lemma eoi_empty_case : forall stt il,
  w = [] -> find (eoi_ok benv w) rules = None ->
  matches (if entry k =? 0
           then inr (ONone, mkL (l_initial l0) true (l_initial l0) (l_user l0) (l_input l0) []
                                il (l_mstart l0) (l_mend l0) None)
           else do_fail T E U prog actions stt
                  (mkL (l_initial l0) true (l_initial l0) (l_user l0) (l_input l0) []
                       il (l_mstart l0) (l_mend l0) None)).
Proof.
  intros stt il Hw Heoi.
  assert (Hsel : select benv rules w = None).
  { rewrite select_char. unfold sel_fn. rewrite Heoi, Hw. reflexivity. }
  assert (Hk : (entry k =? 0) = (k =? 0)).
  { destruct (Nat.eqb_spec k 0) as [e|ne].
    - rewrite e, (so_entry0 SO). reflexivity.
    - apply Nat.eqb_neq. intro e. apply ne.
      destruct (sim_rs SIM) as [H|H]; [exact H|]. apply (so_entry_inj0 SO _ H e). }
  unfold matches, spec_step. rewrite NE. unfold rules_of in Hsel. rewrite Hsel, Hw, Hk.
  destruct (k =? 0) eqn:Ek.
  - eexists. split; [reflexivity|]. constructor; cbn; try reflexivity.
    + apply (sim_user SIM).
    + apply (sim_mstart SIM).
    + apply (sim_mend SIM).
    + apply (sim_arm SIM).
    + apply (sim_rs SIM).
    + pose proof (sim_view SIM) as V. unfold view_ok in *. cbn. rewrite Hw in V. exact V.
    + constructor.
  - pose proof (sim_error il 0 true) as Hs. rewrite Hw in Hs. cbn [skipn firstn] in Hs.
    unfold advance_all in Hs. cbn [fold_left] in Hs.
    unfold do_fail. cbn [l_last].
    destruct (d_bt stt || is_accepting stt); cbn [l_mstart]; rewrite (sim_mstart SIM);
      eexists; (split; [reflexivity|]); exact Hs.
Qed.

(* ---------- the scan ---------- *)

Notation stof σ := (dget (p_states prog) σ).
Notation rdo_fail := (do_fail T E U prog actions).

(* the lexer in the middle of a scan: p read, rest unread *)
Definition sl (st : nat) (rest p : list N) (lv : option (Loc * list N * nat * Loc)) : lexer U :=
  mkL st false (l_initial l0) (l_user l0) (l_input l0) rest (l_iter_loc l0) (l_mstart l0)
      (adv_all (l_mend l0) p) lv.

Lemma scalar_suffix : forall p rest, w = p ++ rest -> Forall scalar rest.
Proof.
  intros p rest Hw. pose proof (sim_scalar SIM) as H. rewrite Hw in H.
  apply Forall_app in H. tauto.
Qed.

Lemma plain_ok_0 : forall r, In r rules -> plain_ok benv w 0 r = false.
Proof.
  intros r Hr. unfold plain_ok. cbn [firstn]. rewrite dafter_nil.
  rewrite (so_not_nullable SO k r Hr). reflexivity.
Qed.

Lemma set_acc_fp : forall p rest σ st lv, w = p ++ rest -> At k p σ ->
  first_passing U prog (sl st rest p lv) (d_acc (stof σ)) =
  option_map cr_act (find (plain_ok benv w (length p)) rules).
Proof.
  intros p rest σ st lv Hw HAt. rewrite (so_acc SO k p σ HAt). unfold accs_plain.
  rewrite (first_passing_find k (sl st rest p lv) _ rules (fun r Hr => Hr)).
  - cbn [sl l_iter]. f_equal. apply find_ext_in. intros r _.
    rewrite (plain_ok_at benv w p rest r Hw). reflexivity.
  - cbn [sl l_iter]. apply (scalar_suffix p rest Hw).
Qed.

Lemma set_acc_eq : forall p rest σ st, w = p ++ rest -> At k p σ ->
  match first_passing U prog (sl st rest p (option_map enc (lastc benv w rules (pred (length p)))))
                      (d_acc (stof σ)) with
  | Some a =>
      set_last (sl st rest p (option_map enc (lastc benv w rules (pred (length p)))))
               (Some (l_mstart l0, rest, a, adv_all (l_mend l0) p))
  | None => sl st rest p (option_map enc (lastc benv w rules (pred (length p))))
  end = sl st rest p (option_map enc (lastc benv w rules (length p))).
Proof.
  intros p rest σ st Hw HAt. rewrite (set_acc_fp p rest σ st _ Hw HAt).
  destruct (find (plain_ok benv w (length p)) rules) as [r|] eqn:Ef; cbn [option_map].
  - destruct (length p) as [|m] eqn:El.
    + apply find_some in Ef as [Hin Hp]. rewrite (plain_ok_0 r Hin) in Hp. discriminate.
    + cbn [lastc]. rewrite Ef. cbn [option_map enc fst snd]. unfold set_last, sl.
      cbn [l_state l_done l_initial l_user l_input l_iter l_iter_loc l_mstart l_mend].
      unfold enc. cbn [fst snd]. rewrite <- El, Hw, skipn_app_exact, firstn_app_exact. reflexivity.
  - destruct (length p) as [|m] eqn:El; [reflexivity|].
    cbn [lastc pred]. rewrite Ef. reflexivity.
Qed.

Lemma bt_none : forall p rest σ, w = p ++ rest -> At k p σ ->
  d_bt (stof σ) || is_accepting (stof σ) = false -> lastc benv w rules (length p) = None.
Proof.
  intros p rest σ Hw HAt H. apply orb_false_iff in H as [Hb Ha].
  apply lastc_none. intros j Hj.
  assert (Hacc : accs_plain benv rss cidx k (firstn j w) = []).
  { destruct (Nat.eq_dec j (length p)) as [->|Hne].
    - rewrite Hw, firstn_app_exact, <- (so_acc SO k p σ HAt).
      unfold is_accepting in Ha. destruct (d_acc (stof σ)); [reflexivity|discriminate].
    - destruct (accs_plain benv rss cidx k (firstn j w)) eqn:Eacc; [reflexivity|]. exfalso.
      assert (Hbt : d_bt (stof σ) = true); [|congruence].
      apply (so_bt SO k p σ (firstn j w) (skipn j p) HAt).
      + rewrite Hw, firstn_app. replace (j - length p) with 0 by lia.
        cbn [firstn]. rewrite app_nil_r, firstn_skipn. reflexivity.
      + intro En. apply (f_equal (@length N)) in En. rewrite skipn_length in En. cbn in En. lia.
      + rewrite Eacc. discriminate. }
  apply find_none_filter with (g := fun r => nullable (dafter benv (firstn j w) r)).
  - unfold accs_plain in Hacc. apply map_eq_nil in Hacc. exact Hacc.
  - intros r Hr. unfold plain_ok in Hr. apply andb_true_iff in Hr. tauto.
Qed.

Lemma w_length : forall p c rest', w = p ++ c :: rest' -> length w = length p + S (length rest').
Proof. intros p c rest' Hw. rewrite Hw, app_length. reflexivity. Qed.

(* (c) end of input during the scan *)
Lemma scan_eoi : forall σ st,
  At k w σ ->
  (w = [] -> σ = entry k /\ st = l_initial l0) ->
  (w <> [] -> vb benv rules w = true /\ eb benv rules w = true) ->
  matches (run_state width tab_width T E U prog actions σ
             (sl st [] w (option_map enc (lastc benv w rules (pred (length w)))))).
Proof.
  intros σ st HAt H0 H1. rewrite run_state_eq. cbv zeta.
  assert (Hw : w = w ++ []) by (rewrite app_nil_r; reflexivity).
  cbn [sl l_mstart l_iter l_mend].
  rewrite (set_acc_eq w [] σ st Hw HAt).
  unfold read_char. cbn [sl l_iter].
  assert (Hdef : find (eoi_ok benv w) rules = None ->
     matches (if σ =? 0
              then inr (ONone, set_done (sl st [] w (option_map enc (lastc benv w rules (length w)))) true)
              else rdo_fail (stof σ)
                     (set_done (sl st [] w (option_map enc (lastc benv w rules (length w)))) true))).
  { intro Heoi.
    assert (Hd : w = [] \/ w <> []) by (destruct (s_rest s); [left; reflexivity|right; discriminate]).
    destruct Hd as [Hnil|Hne].
    - destruct (H0 Hnil) as [-> ->].
      pose proof (eoi_empty_case (stof (entry k)) (l_iter_loc l0) Hnil Heoi) as F.
      rewrite Hnil. exact F.
    - assert (Hs : σ <> 0) by (apply (so_nonzero SO k w σ HAt Hne)).
      apply Nat.eqb_neq in Hs. rewrite Hs.
      destruct (H1 Hne) as [Hv He].
      assert (Hlen : length w <> 0) by (intro E0; apply Hne; apply length_zero_iff_nil; exact E0).
      pose proof (@fail_case (stof σ) st (l_iter_loc l0) (S (length w)) true (length w) (length w) true
                    Hne Heoi eq_refl (bt_none w [] σ Hw HAt)) as F.
      rewrite skipn_all2, firstn_all2 in F by lia. apply F.
      + rewrite (viable_char benv w rules (length w)).
        * rewrite firstn_all, He. reflexivity.
        * lia.
        * intros _. rewrite firstn_all. exact Hv.
        * lia.
      + rewrite orb_true_r. reflexivity.
      + rewrite orb_true_r. cbn [andb]. symmetry. apply Nat.ltb_lt. lia. }
  destruct (so_eoi SO k w σ HAt) as [[He Hacc]|He]; rewrite He.
  - apply Hdef.
    apply find_none_filter with (g := fun r => nullable (deriv benv Eoi (dafter benv w r))).
    + unfold accs_eoi in Hacc. apply map_eq_nil in Hacc. exact Hacc.
    + intros r Hr. unfold eoi_ok in Hr. apply andb_true_iff in Hr. tauto.
  - unfold do_accept, accs_eoi.
    rewrite (first_passing_find k _ _ rules (fun r Hr => Hr)) by (cbn; constructor).
    cbn [set_done sl l_iter].
    change (find (fun r => nullable (deriv benv Eoi (dafter benv w r)) && ctx_ok benv (cr_ctx r) [])
                 rules) with (find (eoi_ok benv w) rules).
    destruct (find (eoi_ok benv w) rules) as [r|] eqn:Ef; cbn [option_map].
    + assert (Hsel : select benv rules w = Some (r, (length w, true))).
      { rewrite select_char. unfold sel_fn. rewrite Ef. reflexivity. }
      pose proof (action_case st (l_iter_loc l0) r (length w) true Hsel) as A.
      unfold lx in A. rewrite skipn_all, firstn_all in A. exact A.
    + apply Hdef. reflexivity.
Qed.

(* (a) the next character is not viable *)
Lemma scan_dead : forall p c rest' σ st,
  w = p ++ c :: rest' -> At k p σ ->
  (p <> [] -> vb benv rules p = true /\ eb benv rules p = true) ->
  vb benv rules (p ++ [c]) = false ->
  matches (rdo_fail (stof σ)
             (sl st rest' (p ++ [c]) (option_map enc (lastc benv w rules (length p))))).
Proof.
  intros p c rest' σ st Hw HAt Hinv Hv.
  destruct (nocand_dead benv w rules p c rest' Hw Hv) as [Heoi Hno].
  pose proof (w_length p c rest' Hw) as Hlen.
  assert (E1 : skipn (S (length p)) w = rest') by (rewrite Hw; apply skipn_S_snoc).
  assert (E2 : firstn (S (length p)) w = p ++ [c]) by (rewrite Hw; apply firstn_S_snoc).
  assert (E3 : firstn (length p) w = p) by (rewrite Hw; apply firstn_app_exact).
  assert (Hne : w <> []) by (rewrite Hw; destruct p; discriminate).
  assert (Hp : p = [] \/ p <> []) by (destruct p; [left; reflexivity|right; discriminate]).
  pose proof (@fail_case (stof σ) st (l_iter_loc l0) (S (length p)) false (length p) (length p)
                (eb benv rules p) Hne Heoi) as F.
  rewrite E1, E2 in F. apply F.
  - apply lastc_stable; [lia|exact Hno].
  - apply (bt_none p (c :: rest') σ Hw HAt).
  - rewrite (viable_char benv w rules (length p)).
    + rewrite E3. reflexivity.
    + lia.
    + intros Hl. rewrite E3. apply Hinv. intro En. subst p. apply Hl. reflexivity.
    + intros _. rewrite E2. exact Hv.
  - destruct Hp as [->|Hp]; [reflexivity|]. destruct (Hinv Hp) as [_ He]. rewrite He, orb_true_r.
    reflexivity.
  - destruct (Nat.ltb_spec (length w) (S (length p))); [lia|]. rewrite andb_false_r. reflexivity.
Qed.

(* (b) the next character leads to a dead-end state: accept now or fail *)
Lemma scan_accept : forall p c rest' σ st,
  w = p ++ c :: rest' -> At k p σ ->
  (p <> [] -> vb benv rules p = true /\ eb benv rules p = true) ->
  vb benv rules (p ++ [c]) = true -> eb benv rules (p ++ [c]) = false ->
  matches
    (match first_passing U prog (sl st rest' (p ++ [c]) (option_map enc (lastc benv w rules (length p))))
                         (accs_plain benv rss cidx k (p ++ [c])) with
     | Some a => rrun_action
                   (set_last (sl st rest' (p ++ [c]) (option_map enc (lastc benv w rules (length p)))) None) a
     | None => rdo_fail (stof σ)
                 (sl st rest' (p ++ [c]) (option_map enc (lastc benv w rules (length p))))
     end).
Proof.
  intros p c rest' σ st Hw HAt Hinv Hv He.
  destruct (nocand_noext benv w rules p c rest' Hw He) as [Heoi Hno].
  pose proof (w_length p c rest' Hw) as Hlen.
  assert (Hw' : w = (p ++ [c]) ++ rest') by (rewrite <- app_assoc; exact Hw).
  assert (E1 : skipn (S (length p)) w = rest') by (rewrite Hw; apply skipn_S_snoc).
  assert (E2 : firstn (S (length p)) w = p ++ [c]) by (rewrite Hw; apply firstn_S_snoc).
  assert (Hne : w <> []) by (rewrite Hw; destruct p; discriminate).
  assert (Hl1 : length (p ++ [c]) = S (length p)) by (rewrite app_length; cbn; lia).
  unfold accs_plain.
  rewrite (first_passing_find k _ _ rules (fun r Hr => Hr))
    by (cbn [sl l_iter]; apply (scalar_suffix (p ++ [c]) rest' Hw')).
  cbn [sl l_iter].
  rewrite (find_ext_in _ (plain_ok benv w (S (length p))) rules)
    by (intros r _; rewrite <- Hl1, (plain_ok_at benv w (p ++ [c]) rest' r Hw'); reflexivity).
  destruct (find (plain_ok benv w (S (length p))) rules) as [r|] eqn:Ef; cbn [option_map].
  - assert (Hsel : select benv rules w = Some (r, (S (length p), false))).
    { rewrite select_char. unfold sel_fn. rewrite Heoi.
      rewrite (@lastc_stable benv w rules (length w) (S (length p))) by (try lia; exact Hno).
      cbn [lastc]. rewrite Ef. reflexivity. }
    pose proof (action_case st (l_iter_loc l0) r (S (length p)) false Hsel) as A.
    unfold lx in A. rewrite E1, E2 in A. exact A.
  - pose proof (@fail_case (stof σ) st (l_iter_loc l0) (S (length p)) false (length p) (S (length p))
                  false Hne Heoi) as F.
    rewrite E1, E2 in F. apply F.
    + apply lastc_stable; [lia|]. intros j Hj.
      destruct (Nat.eq_dec j (S (length p))) as [->|Hn]; [exact Ef|]. apply Hno. lia.
    + apply (bt_none p (c :: rest') σ Hw HAt).
    + rewrite (viable_char benv w rules (S (length p))).
      * rewrite E2, He. reflexivity.
      * lia.
      * intros _. rewrite E2. exact Hv.
      * intros Hlt. destruct (vb benv rules (firstn (S (S (length p))) w)) eqn:Ev; [|reflexivity].
        rewrite (firstn_split (S (S (length p))) (S (length p)) w) in Ev by lia.
        rewrite E2 in Ev. apply vb_longer in Ev; [congruence|].
        intro En. apply (f_equal (@length N)) in En.
        rewrite skipn_length, firstn_length in En. cbn [length] in En. lia.
    + reflexivity.
    + reflexivity.
Qed.

Lemma step_char : forall p c rest' σ st, w = p ++ c :: rest' -> At k p σ ->
  rstep (sl st (c :: rest') p (option_map enc (lastc benv w rules (pred (length p)))), CState σ) =
  char_tail (stof σ) (sl st rest' (p ++ [c]) (option_map enc (lastc benv w rules (length p)))) c.
Proof.
  intros p c rest' σ st Hw HAt. cbn [step]. rewrite run_state_eq. cbv zeta.
  cbn [sl l_mstart l_iter l_mend].
  rewrite (set_acc_eq p (c :: rest') σ st Hw HAt).
  unfold read_char. cbn [sl l_state l_done l_initial l_user l_input l_iter l_iter_loc l_mstart l_mend l_last].
  rewrite <- advance_all_snoc. reflexivity.
Qed.

Lemma scan_from : forall rest p σ st,
  w = p ++ rest -> At k p σ ->
  (p = [] -> σ = entry k /\ st = l_initial l0) ->
  (p <> [] -> vb benv rules p = true /\ eb benv rules p = true) ->
  exists n, n <= 2 * length rest + 1 /\
    matches (iter_nat n rstep
               (sl st rest p (option_map enc (lastc benv w rules (pred (length p)))), CState σ)).
Proof.
  induction rest as [|c rest' IH]; intros p σ st Hw HAt H0 H1.
  - exists 1. split; [cbn; lia|]. rewrite iter_nat_1. cbn [step].
    rewrite app_nil_r in Hw. subst p. apply scan_eoi; assumption.
  - assert (Hc : is_scalar c = true).
    { pose proof (scalar_suffix p (c :: rest') Hw) as F. inversion F; assumption. }
    pose proof (step_char p c rest' σ st Hw HAt) as Hstep.
    destruct (vb benv rules (p ++ [c])) eqn:Ev.
    + destruct (eb benv rules (p ++ [c])) eqn:Ee.
      * (* goto *)
        destruct (so_step_goto SO k p σ c HAt Hc Ev Ee) as (s' & Ht & HAt').
        rewrite (char_tail_goto _ _ c s' Ht) in Hstep.
        assert (Hl1 : pred (length (p ++ [c])) = length p) by (rewrite app_length; cbn; lia).
        assert (Hw' : w = (p ++ [c]) ++ rest') by (rewrite <- app_assoc; exact Hw).
        assert (Hne : p ++ [c] <> []) by (destruct p; discriminate).
        destruct (set_mem s' (p_inlined prog)) eqn:Ei.
        -- destruct (IH (p ++ [c]) s' st Hw' HAt') as (n & Hn & Hm).
           ++ intro; contradiction.
           ++ intros _; split; assumption.
           ++ exists (S n). split; [cbn [length]; lia|]. cbn [iter_nat]. rewrite Hstep.
              rewrite Hl1 in Hm. exact Hm.
        -- destruct (so_dispatch SO k (p ++ [c]) s' HAt' Hne) as [Hd|Hd]; [congruence|].
           destruct (IH (p ++ [c]) s' (renumber (p_inlined prog) s') Hw' HAt') as (n & Hn & Hm).
           ++ intro; contradiction.
           ++ intros _; split; assumption.
           ++ exists (S (S n)). split; [cbn [length]; lia|]. cbn [iter_nat]. rewrite Hstep.
              assert (Hs2 : rstep (set_state (sl st rest' (p ++ [c])
                                     (option_map enc (lastc benv w rules (length p))))
                                     (renumber (p_inlined prog) s'), CLoop) =
                            inl (sl (renumber (p_inlined prog) s') rest' (p ++ [c])
                                    (option_map enc (lastc benv w rules (length p))), CState s')).
              { cbn [step set_state sl l_state l_done l_initial l_user l_input l_iter l_iter_loc
                     l_mstart l_mend l_last]. rewrite Hd. reflexivity. }
              rewrite Hs2. rewrite Hl1 in Hm. exact Hm.
      * (* accepting transition *)
        pose proof (so_step_accept SO k p σ c HAt Hc Ev Ee) as Ht.
        rewrite (char_tail_accept k p σ _ c _ HAt Hc Ht) in Hstep.
        exists 1. split; [cbn; lia|]. rewrite iter_nat_1, Hstep. apply scan_accept; assumption.
    + pose proof (so_step_dead SO k p σ c HAt Hc Ev) as Ht.
      rewrite (char_tail_dead _ _ c Ht) in Hstep.
      exists 1. split; [cbn; lia|]. rewrite iter_nat_1, Hstep. apply scan_dead; assumption.
Qed.

Lemma scan_boundary :
  exists n, n <= 2 * length w + 2 /\ matches (iter_nat n rstep (l0, CLoop)).
Proof.
  assert (El0 : l0 = sl (l_initial l0) w [] None).
  { etransitivity; [apply lexer_eta|]. unfold sl.
    rewrite (sim_state SIM), (sim_done SIM), NE, (sim_iter SIM), (sim_last SIM). reflexivity. }
  assert (HAt : At k [] (entry k)).
  { destruct (sim_rs SIM) as [H|H]; [rewrite H; apply (so_start0 SO)|apply (so_start SO _ H)]. }
  destruct (scan_from w [] (entry k) (l_initial l0) eq_refl HAt) as (n & Hn & Hm).
  - intros _; split; reflexivity.
  - intro H; contradiction.
  - exists (S n). split; [lia|]. cbn [iter_nat step].
    rewrite (sim_done SIM), NE, (sim_state SIM), (sim_arm SIM).
    cbn [length pred lastc option_map] in Hm. rewrite <- El0 in Hm. exact Hm.
Qed.

End Scan.

(* ==================================================================================== *)
(* Layer (iv): the loop of next()                                                        *)
(* ==================================================================================== *)

Notation sstep := (spec_step benv width tab_width T E U rss actions).
Notation snext := (spec_next benv width tab_width T E U rss actions).

Definition outcome_of (oi : option (item T E)) : outcome T E :=
  match oi with Some i => OItem i | None => ONone end.

Definition succ_state (x : LexSpec.sstep T E U) : sstate U :=
  match x with SItem _ s' => s' | SCont s' => s' | SEnd s' => s' end.

Lemma spec_step_len : forall s, length (s_rest (succ_state (sstep s))) <= length (s_rest s).
Proof.
  intro s. unfold spec_step. destruct (s_ended s); [cbn; lia|].
  destruct (select benv (nth (s_rs s) rss []) (s_rest s)) as [[r [j e]]|].
  - cbv zeta. destruct (a_res _) as [|[t|x]]; cbn; rewrite skipn_length; lia.
  - destruct (s_rest s) as [|c w'] eqn:Ew.
    + destruct (s_rs s =? 0); cbn; lia.
    + destruct (viable benv (nth (s_rs s) rss []) (c :: w')) as [kv ext].
      cbn [succ_state s_rest]. rewrite skipn_length. lia.
Qed.

Lemma spec_step_cont : forall s s', sstep s = SCont s' ->
  s_ended s' = true \/ length (s_rest s') < length (s_rest s).
Proof.
  intros s s' H. unfold spec_step in H. destruct (s_ended s); [discriminate|].
  destruct (select benv (nth (s_rs s) rss []) (s_rest s)) as [[r [j e]]|] eqn:Esel.
  - rewrite select_char in Esel. unfold sel_fn in Esel.
    assert (Hje : e = true \/ 1 <= j <= length (s_rest s)).
    { destruct (find (eoi_ok benv (s_rest s)) (nth (s_rs s) rss [])).
      - inversion Esel. left; reflexivity.
      - destruct (lastc benv (s_rest s) (nth (s_rs s) rss []) (length (s_rest s))) as [[r0 j0]|] eqn:El;
          [|discriminate].
        cbn in Esel. inversion Esel; subst. right. apply (lastc_bound _ _ _ _ _ _ El). }
    cbv zeta in H. destruct (a_res _) as [|[t|x]]; try discriminate.
    inversion H; subst s'. cbn [s_ended s_rest].
    destruct Hje as [->|Hj]; [left; reflexivity|right]. rewrite skipn_length. lia.
  - destruct (s_rest s) as [|c w'].
    + destruct (s_rs s =? 0); discriminate.
    + destruct (viable benv (nth (s_rs s) rss []) (c :: w')) as [kv ext]. discriminate.
Qed.

(* steps needed by one call of next() with m unread characters *)
Fixpoint sb (m : nat) : nat :=
  match m with O => 4 | S m' => sb m' + 4 * m' + 7 end.

Lemma sb_ge : forall m, 2 * m + 3 <= sb m.
Proof. induction m as [|m IH]; cbn [sb]; lia. Qed.

Lemma sb_closed : forall m, sb m = (m + 1) * (2 * m + 3) + 1.
Proof. induction m as [|m IH]; [reflexivity|]. cbn [sb]. rewrite IH. nia. Qed.

Lemma sb_mono : forall a b, a <= b -> sb a <= sb b.
Proof. intros a b H. induction H; [lia|]. cbn [sb]. lia. Qed.

Lemma iter_nat_inr : forall {St R} n m (f : St -> St + R) x r,
  iter_nat n f x = inr r -> n <= m -> iter_nat m f x = inr r.
Proof.
  intros St R n m f x r H Hle. replace m with (n + (m - n)) by lia.
  rewrite iter_nat_add, H. reflexivity.
Qed.

Lemma step_done : forall (l : lexer U) n, l_done l = true -> 1 <= n ->
  iter_nat n rstep (l, CLoop) = inr (ONone, l).
Proof.
  intros l n Hd Hn. apply (@iter_nat_inr _ _ 1 n); [|exact Hn].
  rewrite iter_nat_1. cbn [step]. rewrite Hd. reflexivity.
Qed.

Lemma next_loop : forall m l s n,
  sim l s -> length (s_rest s) <= m -> sb m <= n ->
  exists fuel',
    match snext fuel' s with
    | Some (oi, s') => exists l', iter_nat n rstep (l, CLoop) = inr (outcome_of oi, l') /\ sim l' s'
    | None => False
    end.
Proof.
  induction m as [|m IH]; intros l s n SIM Hlen Hn.
  - (* no unread characters *)
    pose proof (sb_ge 0) as Hsb. cbn [sb] in Hn.
    destruct (s_ended s) eqn:NE.
    + exists 1. cbn [spec_next]. unfold spec_step. rewrite NE.
      exists l. split; [|exact SIM]. apply step_done; [rewrite (sim_done SIM); exact NE|lia].
    + destruct (scan_boundary l s SIM NE) as (n0 & Hn0 & Hm). unfold matches in Hm.
      destruct (sstep s) as [i s'|s'|s'] eqn:Est.
      * destruct Hm as (l' & Hr & Hs). exists 1. cbn [spec_next]. rewrite Est.
        exists l'. split; [|exact Hs]. apply (iter_nat_inr n0 n _ _ _ Hr). lia.
      * destruct Hm as (l' & Hr & Hs).
        destruct (spec_step_cont s s' Est) as [He|Hlt]; [|lia].
        exists 2. cbn [spec_next]. rewrite Est. unfold spec_step. rewrite He.
        exists l'. split; [|exact Hs].
        replace n with (n0 + (n - n0)) by lia. rewrite iter_nat_add, Hr.
        apply step_done; [rewrite (sim_done Hs); exact He|lia].
      * destruct Hm as (l' & Hr & Hs). exists 1. cbn [spec_next]. rewrite Est.
        exists l'. split; [|exact Hs]. apply (iter_nat_inr n0 n _ _ _ Hr). lia.
  - pose proof (sb_ge (S m)) as Hsb.
    destruct (s_ended s) eqn:NE.
    + exists 1. cbn [spec_next]. unfold spec_step. rewrite NE.
      exists l. split; [|exact SIM]. apply step_done; [rewrite (sim_done SIM); exact NE|lia].
    + destruct (scan_boundary l s SIM NE) as (n0 & Hn0 & Hm). unfold matches in Hm.
      destruct (sstep s) as [i s'|s'|s'] eqn:Est.
      * destruct Hm as (l' & Hr & Hs). exists 1. cbn [spec_next]. rewrite Est.
        exists l'. split; [|exact Hs]. apply (iter_nat_inr n0 n _ _ _ Hr). lia.
      * destruct Hm as (l' & Hr & Hs).
        destruct (spec_step_cont s s' Est) as [He|Hlt].
        -- exists 2. cbn [spec_next]. rewrite Est. unfold spec_step. rewrite He.
           exists l'. split; [|exact Hs].
           replace n with (n0 + (n - n0)) by lia. rewrite iter_nat_add, Hr.
           apply step_done; [rewrite (sim_done Hs); exact He|lia].
        -- destruct (IH l' s' (n - n0) Hs) as (f' & Hf); [lia|cbn [sb] in Hn; lia|].
           exists (S f'). cbn [spec_next]. rewrite Est.
           destruct (snext f' s') as [[oi s'']|]; [|exact Hf].
           destruct Hf as (l'' & Hr' & Hs'). exists l''. split; [|exact Hs'].
           replace n with (n0 + (n - n0)) by lia. rewrite iter_nat_add, Hr. exact Hr'.
      * destruct Hm as (l' & Hr & Hs). exists 1. cbn [spec_next]. rewrite Est.
        exists l'. split; [|exact Hs]. apply (iter_nat_inr n0 n _ _ _ Hr). lia.
Qed.

(* ---------- main theorems ---------- *)

Definition enough_fuel (fuel : positive) (l : lexer U) : Prop :=
  (length (l_iter l) + 1) * (2 * length (l_iter l) + 3) + 1 <= Pos.to_nat fuel.

Notation rnext := (next width tab_width T E U prog actions).

Theorem next_simulates : forall l s fuel,
  sim l s -> enough_fuel fuel l ->
  exists fuel',
    match snext fuel' s with
    | Some (oi, s') => exists l', rnext fuel l = (outcome_of oi, l') /\ sim l' s'
    | None => False
    end.
Proof.
  intros l s fuel SIM Hf. unfold enough_fuel in Hf. rewrite (sim_iter SIM), <- sb_closed in Hf.
  destruct (next_loop (length (s_rest s)) l s (Pos.to_nat fuel) SIM (le_n _) Hf) as (f' & H).
  exists f'. destruct (snext f' s) as [[oi s']|]; [|exact H].
  destruct H as (l' & Hr & Hs). exists l'. split; [|exact Hs].
  unfold next. rewrite iter_pos_nat, Hr. reflexivity.
Qed.

Theorem sim_init : forall whole u with_str,
  Forall scalar whole -> (with_str = false -> text_blind) ->
  sim (lexer_new U whole u with_str) (s_init U whole u).
Proof.
  intros whole u with_str Hsc Htb. constructor; cbn; try reflexivity.
  - rewrite (so_entry0 SO). apply (so_arm0 SO).
  - left. reflexivity.
  - unfold view_ok. cbn. destruct with_str.
    + exists []. cbn. split; [reflexivity|]. split; reflexivity.
    + apply Htb. reflexivity.
  - exact Hsc.
Qed.

Corollary no_panic_no_fuel : forall l s fuel,
  sim l s -> enough_fuel fuel l -> forall t, fst (rnext fuel l) <> OPanic t.
Proof.
  intros l s fuel SIM Hf t.
  destruct (next_simulates l s fuel SIM Hf) as (f' & H).
  destruct (snext f' s) as [[oi s']|]; [|destruct H].
  destruct H as (l' & Hr & _). rewrite Hr. cbn. destruct oi; discriminate.
Qed.

(* ---------- streams ---------- *)

Fixpoint run_lexer (n : nat) (fuel : positive) (l : lexer U) : list (outcome T E) :=
  match n with
  | O => []
  | S n' => let (o, l') := rnext fuel l in o :: run_lexer n' fuel l'
  end.

(* n successive results of the specification (each with some sufficient fuel) *)
Inductive spec_run : nat -> sstate U -> list (option (item T E)) -> Prop :=
| SR0 : forall s, spec_run 0 s []
| SRS : forall n s f oi s' r,
    snext f s = Some (oi, s') -> spec_run n s' r -> spec_run (S n) s (oi :: r).

Lemma spec_next_len : forall f s oi s', snext f s = Some (oi, s') ->
  length (s_rest s') <= length (s_rest s).
Proof.
  induction f as [|f IH]; intros s oi s' H; [discriminate|]. cbn [spec_next] in H.
  pose proof (spec_step_len s) as Hl.
  destruct (sstep s) as [i s1|s1|s1]; cbn [succ_state] in Hl.
  - inversion H; subst. exact Hl.
  - apply IH in H. lia.
  - inversion H; subst. exact Hl.
Qed.

Lemma enough_fuel_mono : forall fuel (l l' : lexer U),
  length (l_iter l') <= length (l_iter l) -> enough_fuel fuel l -> enough_fuel fuel l'.
Proof.
  intros fuel l l' Hle H. unfold enough_fuel in *. rewrite <- sb_closed in *.
  pose proof (sb_mono _ _ Hle). lia.
Qed.

Corollary streams_equal : forall n l s fuel,
  sim l s -> enough_fuel fuel l ->
  exists r, spec_run n s r /\ run_lexer n fuel l = map outcome_of r.
Proof.
  induction n as [|n IH]; intros l s fuel SIM Hf.
  - exists []. split; [constructor|reflexivity].
  - destruct (next_simulates l s fuel SIM Hf) as (f' & H).
    destruct (snext f' s) as [[oi s']|] eqn:Es; [|destruct H].
    destruct H as (l' & Hr & Hs).
    assert (Hf' : enough_fuel fuel l').
    { apply (enough_fuel_mono fuel l l'); [|exact Hf].
      rewrite (sim_iter Hs), (sim_iter SIM). apply (spec_next_len f' s oi s' Es). }
    destruct (IH l' s' fuel Hs Hf') as (r & Hrun & Heq).
    exists (oi :: r). split; [econstructor; eassumption|].
    cbn [run_lexer map]. rewrite Hr, Heq. reflexivity.
Qed.

(* the specification stream is a function of (n, s): spec_next does not depend on the fuel *)
Lemma spec_next_fuel_mono : forall f f' s x, snext f s = Some x -> f <= f' -> snext f' s = Some x.
Proof.
  induction f as [|f IH]; intros f' s x H Hle; [discriminate|].
  destruct f' as [|f']; [lia|]. cbn [spec_next] in *.
  destruct (sstep s) as [i s1|s1|s1]; try exact H. apply IH; [exact H|lia].
Qed.

Lemma spec_run_fun : forall n s r1 r2, spec_run n s r1 -> spec_run n s r2 -> r1 = r2.
Proof.
  induction n as [|n IH]; intros s r1 r2 H1 H2; inversion H1; inversion H2; subst; [reflexivity|].
  match goal with
  | Ha : snext ?f1 s = Some (?o1, ?s1), Hb : snext ?f2 s = Some (?o2, ?s2) |- _ =>
      pose proof (spec_next_fuel_mono f1 (Nat.max f1 f2) s _ Ha (Nat.le_max_l _ _)) as Ea;
      pose proof (spec_next_fuel_mono f2 (Nat.max f1 f2) s _ Hb (Nat.le_max_r _ _)) as Eb
  end.
  rewrite Ea in Eb. inversion Eb; subst. f_equal. eapply IH; eassumption.
Qed.

(* from the constructors: Lexer::new (with_str = true) / new_from_iter (false) *)
Corollary lexer_stream_correct : forall whole u with_str n fuel,
  Forall scalar whole -> (with_str = false -> text_blind) ->
  enough_fuel fuel (lexer_new U whole u with_str) ->
  exists r, spec_run n (s_init U whole u) r /\
            run_lexer n fuel (lexer_new U whole u with_str) = map outcome_of r.
Proof.
  intros whole u with_str n fuel Hsc Htb Hf.
  apply streams_equal; [apply sim_init; assumption|exact Hf].
Qed.

End Sim.

Print Assumptions next_simulates.
Print Assumptions sim_init.
Print Assumptions no_panic_no_fuel.
Print Assumptions streams_equal.
Print Assumptions lexer_stream_correct.
Print Assumptions spec_run_fun.
