(* Model of crates/lexgen/src/nfa.rs, regex_to_nfa.rs (add_re, regex_to_range_map). *)
From LexVerif Require Import Base CharClass RangeMap Regex.

Definition accval := (nat * option nat)%type.      (* AcceptingState { value, right_ctx } *)

Record nstate := mkN {
  n_chars : list (N * list nat);      (* char_transitions, kept sorted by char *)
  n_ranges : rmap (list nat);         (* range_transitions *)
  n_eps : list nat;                   (* empty_transitions *)
  n_any : list nat;
  n_eoi : list nat;
  n_acc : option accval
}.

Definition nstate_empty : nstate := mkN [] [] [] [] [] None.
Definition nfa := list nstate.

Definition nfa_new : nfa := [nstate_empty].                       (* NFA::new *)
Definition new_state (n : nfa) : nfa * nat := (n ++ [nstate_empty], length n).
Definition nget (n : nfa) (s : nat) : nstate := nth s n nstate_empty.

Definition add_char_transition (n : nfa) (s : nat) (c : N) (next : nat) : result nfa :=
  let old := match assoc_N c (n_chars (nget n s)) with Some l => l | None => [] end in
  if set_mem next old then Panic TagAddCharTransition
  else Ok (upd s (fun st => mkN (assoc_N_set c (set_add next old) (n_chars st)) (n_ranges st)
                                 (n_eps st) (n_any st) (n_eoi st) (n_acc st)) n).

Definition add_range_transition (n : nfa) (s : nat) (lo hi : N) (next : nat) : nfa :=
  upd s (fun st => mkN (n_chars st) (insert set_union (n_ranges st) lo hi [next])
                       (n_eps st) (n_any st) (n_eoi st) (n_acc st)) n.

Definition add_range_transitions (n : nfa) (s : nat) (ranges : rmap unit) (next : nat) : result nfa :=
  match insert_ranges set_union (n_ranges (nget n s)) (rmap_map (fun _ => [next]) ranges) with
  | None => Panic TagOutOfFuel
  | Some rs => Ok (upd s (fun st => mkN (n_chars st) rs (n_eps st) (n_any st) (n_eoi st) (n_acc st)) n)
  end.

Definition add_empty_transition (n : nfa) (s next : nat) : result nfa :=
  if set_mem next (n_eps (nget n s)) then Panic TagAddEmptyTransition
  else Ok (upd s (fun st => mkN (n_chars st) (n_ranges st) (set_add next (n_eps st))
                                 (n_any st) (n_eoi st) (n_acc st)) n).

Definition add_any_transition (n : nfa) (s next : nat) : result nfa :=
  if set_mem next (n_any (nget n s)) then Panic TagAddAnyTransition
  else Ok (upd s (fun st => mkN (n_chars st) (n_ranges st) (n_eps st)
                                 (set_add next (n_any st)) (n_eoi st) (n_acc st)) n).

Definition add_eoi_transition (n : nfa) (s next : nat) : result nfa :=
  if set_mem next (n_eoi (nget n s)) then Panic TagAddEoiTransition
  else Ok (upd s (fun st => mkN (n_chars st) (n_ranges st) (n_eps st) (n_any st)
                                 (set_add next (n_eoi st)) (n_acc st)) n).

Definition make_state_accepting (n : nfa) (s : nat) (v : accval) : result nfa :=
  match n_acc (nget n s) with
  | Some _ => Panic TagMakeStateAccepting
  | None => Ok (upd s (fun st => mkN (n_chars st) (n_ranges st) (n_eps st) (n_any st)
                                     (n_eoi st) (Some v)) n)
  end.

Section WithBuiltins.
Variable benv : builtin_env.

Definition merge_unit (_ _ : unit) : unit := tt.

Definition pairs_to_rmap (t : pairs) : rmap unit := map (fun p => mkRange (fst p) (snd p) tt) t.

(* regex_to_range_map; variables are looked up lazily, [fuel] bounds the nesting of lookups *)
Fixpoint regex_to_range_map (fuel : nat) (b : bindings) : regex -> result (rmap unit) :=
  fix go (r : regex) : result (rmap unit) :=
    match r with
    | RBuiltin n =>
        match lookup_builtin n benv with
        | None => Panic TagUnknownBuiltin
        | Some t => Ok (pairs_to_rmap t)
        end
    | RVar v =>
        match lookup_var v b with
        | None => Panic TagUnboundVar
        | Some r' => match fuel with O => Panic TagVarDepth | S f => regex_to_range_map f b r' end
        end
    | RChar c => Ok (insert merge_unit [] c c tt)
    | RCharSet l =>
        Ok (fold_left (fun m x => match x with
                                  | CChar c => insert merge_unit m c c tt
                                  | CRange a b' => insert merge_unit m a b' tt
                                  end) l [])
    | ROr r1 r2 =>
        do m1 <- go r1; do m2 <- go r2;
        match insert_ranges merge_unit m1 m2 with Some m => Ok m | None => Panic TagOutOfFuel end
    | RAny => Ok (insert merge_unit [] 0 CHAR_MAX tt)
    | RDiff r1 r2 =>
        do m1 <- go r1; do m2 <- go r2;
        match remove_ranges m1 m2 with Some m => Ok m | None => Panic TagOutOfFuel end
    | RString _ | RStar _ | RPlus _ | ROpt _ | RCat _ _ | REoi => Panic TagNotCharSet
    end.

(* Regex::String: a chain of fresh states; the empty literal "" is one epsilon edge *)
Fixpoint add_string (n : nfa) (s : list N) (cur cont : nat) : result nfa :=
  match s with
  | [] => add_empty_transition n cur cont
  | [c] => add_char_transition n cur c cont
  | c :: rest =>
      let (n1, next) := new_state n in
      do n2 <- add_char_transition n1 cur c next;
      add_string n2 rest next cont
  end.

(* Regex::CharSet: repeated characters are skipped (seen list) *)
Fixpoint add_charset (n : nfa) (l : list cor) (seen : list N) (cur cont : nat) : result nfa :=
  match l with
  | [] => Ok n
  | CChar c :: rest =>
      if existsb (N.eqb c) seen then add_charset n rest seen cur cont
      else do n1 <- add_char_transition n cur c cont; add_charset n1 rest (c :: seen) cur cont
  | CRange a b :: rest =>
      add_charset (add_range_transition n cur a b cont) rest seen cur cont
  end.

(* regex_to_nfa::add_re *)
Fixpoint add_re (fuel : nat) (b : bindings) : regex -> nfa -> nat -> nat -> result nfa :=
  fix go (r : regex) (n : nfa) (cur cont : nat) {struct r} : result nfa :=
    match r with
    | RBuiltin name =>
        match lookup_builtin name benv with
        | None => Panic TagUnknownBuiltin
        | Some t => add_range_transitions n cur (pairs_to_rmap t) cont
        end
    | RVar v =>
        match lookup_var v b with
        | None => Panic TagUnboundVar
        | Some r' => match fuel with O => Panic TagVarDepth | S f => add_re f b r' n cur cont end
        end
    | RChar c => add_char_transition n cur c cont
    | RString s => add_string n s cur cont
    | RCharSet l => add_charset n l [] cur cont
    | RStar r1 =>
        let (n1, re_init) := new_state n in
        let (n2, re_cont) := new_state n1 in
        do n3 <- go r1 n2 re_init re_cont;
        do n4 <- add_empty_transition n3 cur cont;
        do n5 <- add_empty_transition n4 cur re_init;
        do n6 <- add_empty_transition n5 re_cont cont;
        add_empty_transition n6 re_cont re_init
    | RPlus r1 =>
        let (n1, re_init) := new_state n in
        let (n2, re_cont) := new_state n1 in
        do n3 <- go r1 n2 re_init re_cont;
        do n4 <- add_empty_transition n3 cur re_init;
        do n5 <- add_empty_transition n4 re_cont cont;
        add_empty_transition n5 re_cont re_init
    | ROpt r1 =>
        let (n1, re_init) := new_state n in
        do n2 <- go r1 n1 re_init cont;
        do n3 <- add_empty_transition n2 cur cont;
        add_empty_transition n3 cur re_init
    | RCat r1 r2 =>
        let (n1, re1_cont) := new_state n in
        do n2 <- go r1 n1 cur re1_cont;
        go r2 n2 re1_cont cont
    | ROr r1 r2 =>
        let (n1, re1_init) := new_state n in
        let (n2, re2_init) := new_state n1 in
        do n3 <- go r1 n2 re1_init cont;
        do n4 <- go r2 n3 re2_init cont;
        do n5 <- add_empty_transition n4 cur re1_init;
        add_empty_transition n5 cur re2_init
    | RAny => add_any_transition n cur cont
    | REoi => add_eoi_transition n cur cont
    | RDiff _ _ =>
        do m <- regex_to_range_map fuel b r;
        add_range_transitions n cur m cont
    end.

(* NFA::add_regex *)
Definition add_regex (b : bindings) (n : nfa) (re : regex) (ctx : option nat) (value : nat)
  : result nfa :=
  let (n1, acc) := new_state n in
  do n2 <- make_state_accepting n1 acc (value, ctx);
  let (n3, init) := new_state n2 in
  do n4 <- add_empty_transition n3 0 init;
  add_re (length b) b re n4 init acc.

End WithBuiltins.

(* NFA::compute_state_closure: worklist over empty transitions. Every push adds a state that
   was not in the closure, so length n + length start + 1 pops suffice. *)
Fixpoint closure_go (fuel : nat) (n : nfa) (work : list nat) (clo : list nat) : option (list nat) :=
  match fuel with
  | O => None
  | S f =>
      match work with
      | [] => Some clo
      | w :: rest =>
          let '(work', clo') :=
            fold_left (fun (acc : list nat * list nat) x =>
                         if set_mem x (snd acc) then acc else (x :: fst acc, set_add x (snd acc)))
                      (n_eps (nget n w)) (rest, clo) in
          closure_go f n work' clo'
      end
  end.

Definition closure (n : nfa) (start : list nat) : result (list nat) :=
  let s := set_of_list start in
  match closure_go (length n + length s + 1) n s s with
  | Some c => Ok c
  | None => Panic TagOutOfFuel
  end.
