(* Model of the definition-level grammar of crates/lexgen/src/ast.rs: parse_rule_or_binding,
   parse_rule and the rule list of make_lexer_parser (after the `Name(State) -> Token;` header),
   over the token stream syn presents. Right-hand sides (Rust expressions) and the error type are
   opaque single tokens: parsing Rust expressions and types is syn's job and is trusted.
   Punctuation is encoded as [TOther k]: *)
From LexVerif Require Import Base CharClass Regex Parser Driver.

Definition P_COMMA : N := 0.     (* ,  *)
Definition P_EQ : N := 1.        (* =  *)
Definition P_SEMI : N := 2.      (* ;  *)
Definition P_GT : N := 3.        (* >  *)
Definition P_FATARROW : N := 4.  (* => *)
Definition P_EXPR : N := 10.     (* an expression / a type: opaque *)

(* keywords and the contextual keyword `rule` are identifiers with these names *)
Definition kw_let : name := [108; 101; 116]%N.
Definition kw_rule : name := [114; 117; 108; 101]%N.
Definition kw_type : name := [116; 121; 112; 101]%N.
Definition kw_Error : name := [69; 114; 114; 111; 114]%N.

(* a definition-level token: an ordinary token, or a brace group (the body of a rule set) *)
Inductive dtok := DT (t : tok) | DBrace (ts : list tok).

(* kinds of right-hand sides (ast::RuleRhs / RuleKind); the expression itself is opaque *)
Inductive rhs_kind := RhsNone | RhsSimple | RhsFallible | RhsInfallible.

Record prule := mkPRule { pr_re : regex; pr_ctx : option regex; pr_kind : rhs_kind }.
Inductive prob := PRule (r : prule) | PBinding (v : name) (re : regex).
Inductive ptop := PErrorType | PRob (x : prob) | PRuleSet (n : name) (rules : list prob).

(* parse_regex_ctx: re [ > re ] *)
Definition parse_regex_ctx (fuel : nat) (ts : list tok) : option (regex * option regex * list tok) :=
  match parse_re fuel 0 ts with
  | None => None
  | Some (re, TOther k :: rest) =>
      if (k =? P_GT)%N then
        match parse_re fuel 0 rest with
        | Some (ctx, rest') => Some (re, Some ctx, rest')
        | None => None
        end
      else Some (re, None, TOther k :: rest)
  | Some (re, rest) => Some (re, None, rest)
  end.

(* parse_rule_or_binding on a flat token list *)
Definition parse_rob (fuel : nat) (ts : list tok) : option (prob * list tok) :=
  match ts with
  | TIdent kw :: rest =>
      if name_eqb kw kw_let then
        match rest with
        | TIdent v :: TOther k :: rest1 =>
            if (k =? P_EQ)%N then
              match parse_re fuel 0 rest1 with
              | Some (re, TOther k2 :: rest2) =>
                  if (k2 =? P_SEMI)%N then Some (PBinding v re, rest2) else None
              | _ => None
              end
            else None
        | _ => None
        end
      else None           (* a regex cannot start with an identifier *)
  | _ =>
      match parse_regex_ctx fuel ts with
      | None => None
      | Some (re, ctx, TOther k :: rest) =>
          if (k =? P_COMMA)%N then Some (PRule (mkPRule re ctx RhsNone), rest)
          else if (k =? P_FATARROW)%N then
            match rest with
            | TOther e :: TOther c :: rest' =>
                if (e =? P_EXPR)%N && (c =? P_COMMA)%N
                then Some (PRule (mkPRule re ctx RhsInfallible), rest') else None
            | _ => None
            end
          else if (k =? P_EQ)%N then
            match rest with
            | TQuestion :: TOther e :: TOther c :: rest' =>
                if (e =? P_EXPR)%N && (c =? P_COMMA)%N
                then Some (PRule (mkPRule re ctx RhsFallible), rest') else None
            | TOther e :: TOther c :: rest' =>
                if (e =? P_EXPR)%N && (c =? P_COMMA)%N
                then Some (PRule (mkPRule re ctx RhsSimple), rest') else None
            | _ => None
            end
          else None          (* the Rust panics: "Expected one of `,`, `=>`, `=?`, or `=`" *)
      | Some _ => None
      end
  end.

(* the rules inside a brace group: `while !braced.is_empty()` *)
Fixpoint parse_robs (fuel : nat) (n : nat) (ts : list tok) : option (list prob) :=
  match ts with
  | [] => Some []
  | _ =>
      match n with
      | O => None
      | S n' =>
          match parse_rob fuel ts with
          | Some (x, rest) => option_map (cons x) (parse_robs fuel n' rest)
          | None => None
          end
      end
  end.

Definition flat (ds : list dtok) : list tok :=
  flat_map (fun d => match d with DT t => [t] | DBrace _ => [] end) ds.

(* leading ordinary tokens up to the first brace group *)
Fixpoint split_brace (ds : list dtok) : list tok * option (list tok * list dtok) :=
  match ds with
  | [] => ([], None)
  | DT t :: rest => let (a, b) := split_brace rest in (t :: a, b)
  | DBrace body :: rest => ([], Some (body, rest))
  end.

(* parse_rule / the loop of make_lexer_parser: fuel [n] bounds the number of top-level items *)
Fixpoint parse_tops (fuel : nat) (n : nat) (ds : list dtok) : option (list ptop) :=
  match ds with
  | [] => Some []
  | _ =>
      match n with
      | O => None
      | S n' =>
          match ds with
          | DT (TIdent kw) :: rest =>
              if name_eqb kw kw_let then parse_top_rob fuel n' ds
              else if name_eqb kw kw_type then
                match rest with
                | DT (TIdent e) :: DT (TOther k1) :: DT (TOther ty) :: DT (TOther k2) :: rest' =>
                    if name_eqb e kw_Error && (k1 =? P_EQ)%N && (ty =? P_EXPR)%N && (k2 =? P_SEMI)%N
                    then option_map (cons PErrorType) (parse_tops fuel n' rest') else None
                | _ => None
                end
              else if name_eqb kw kw_rule then
                match rest with
                | DT (TIdent nm) :: DBrace body :: rest' =>
                    match parse_robs fuel (length body) body with
                    | None => None
                    | Some rules =>
                        let rest'' := match rest' with
                                      | DT (TOther k) :: r => if (k =? P_COMMA)%N then r else rest'
                                      | _ => rest' end in
                        option_map (cons (PRuleSet nm rules)) (parse_tops fuel n' rest'')
                    end
                | _ => None
                end
              else None      (* "Unknown identifier, expected "rule", "let", or a regex" *)
          | _ => parse_top_rob fuel n' ds
          end
      end
  end
with parse_top_rob (fuel : nat) (n : nat) (ds : list dtok) {struct n} : option (list ptop) :=
  (* a top-level rule or binding: it cannot extend over a brace group *)
  let (pre, _) := split_brace ds in
  match parse_rob fuel pre with
  | None => None
  | Some (x, rest) =>
      (* the unconsumed ordinary tokens, followed by whatever came after them *)
      let consumed := length pre - length rest in
      match n with
      | O => None
      | S n' => option_map (cons (PRob x)) (parse_tops fuel n' (skipn consumed ds))
      end
  end.

Definition parse_def (ds : list dtok) : option (list ptop) :=
  parse_tops (parse_fuel (flat ds) + 6 * fold_right (fun d acc => match d with DBrace b => toks_size b | _ => 0 end + acc) 0 ds + 6)
             (2 * length ds + 2) ds.

(* ---------- printer ---------- *)
Definition print_rhs (k : rhs_kind) : list tok :=
  match k with
  | RhsNone => [TOther P_COMMA]
  | RhsSimple => [TOther P_EQ; TOther P_EXPR; TOther P_COMMA]
  | RhsFallible => [TOther P_EQ; TQuestion; TOther P_EXPR; TOther P_COMMA]
  | RhsInfallible => [TOther P_FATARROW; TOther P_EXPR; TOther P_COMMA]
  end.

Definition print_rob (x : prob) : list tok :=
  match x with
  | PBinding v re => TIdent kw_let :: TIdent v :: TOther P_EQ :: print_re 0 re ++ [TOther P_SEMI]
  | PRule r =>
      print_re 0 (pr_re r)
      ++ (match pr_ctx r with Some c => TOther P_GT :: print_re 0 c | None => [] end)
      ++ print_rhs (pr_kind r)
  end.

Definition print_top (trailing_comma : bool) (t : ptop) : list dtok :=
  match t with
  | PErrorType => map DT [TIdent kw_type; TIdent kw_Error; TOther P_EQ; TOther P_EXPR; TOther P_SEMI]
  | PRob x => map DT (print_rob x)
  | PRuleSet nm rules =>
      [DT (TIdent kw_rule); DT (TIdent nm); DBrace (flat_map print_rob rules)]
      ++ (if trailing_comma then [DT (TOther P_COMMA)] else [])
  end.

Definition print_def (trailing_comma : bool) (d : list ptop) : list dtok :=
  flat_map (print_top trailing_comma) d.

(* from the parsed form to Driver.def: action indices in source order *)
Fixpoint number_robs (next : nat) (l : list prob) : list rob * nat :=
  match l with
  | [] => ([], next)
  | PBinding v re :: t => let (r, n) := number_robs next t in (RBBinding v re :: r, n)
  | PRule p :: t => let (r, n) := number_robs (S next) t in (RBRule (mkRule (pr_re p) (pr_ctx p) next) :: r, n)
  end.
Fixpoint number_tops (next : nat) (l : list ptop) : def :=
  match l with
  | [] => []
  | PErrorType :: t => TErrorType :: number_tops next t
  | PRob (PBinding v re) :: t => TRob (RBBinding v re) :: number_tops next t
  | PRob (PRule p) :: t => TRob (RBRule (mkRule (pr_re p) (pr_ctx p) next)) :: number_tops (S next) t
  | PRuleSet nm rules :: t => let (r, n) := number_robs next rules in TRuleSet nm r :: number_tops n t
  end.
