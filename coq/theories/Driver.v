(* Model of crates/lexgen/src/lib.rs: lexer(), compile_rule_set, compile_single_rule,
   right_ctx.rs new_right_ctx. A definition is the parsed AST (ast::Lexer.rules). *)
From LexVerif Require Import Base CharClass RangeMap Regex Nfa Dfa NfaToDfa Codegen.

Record rule := mkRule { ru_re : regex; ru_ctx : option regex; ru_act : nat }.

Inductive rob := RBRule (r : rule) | RBBinding (v : name) (re : regex).     (* RuleOrBinding *)

Inductive top :=
| TErrorType
| TRob (x : rob)
| TRuleSet (n : name) (rules : list rob).

Definition def := list top.

Definition name_Init : name := [73; 110; 105; 116]%N.

Section Driver.
Variable benv : builtin_env.
Variable max_guard : nat.

(* all intermediate artifacts, as the hooks dump them *)
Record ruleset_art := mkRA { ra_name : option name; ra_nfa : nfa; ra_dfa : dfa nat; ra_map : state_map }.
Record ctx_art := mkCA { ca_nfa : nfa; ca_dfa : dfa nat; ca_map : state_map }.

Record compiled := mkCompiled {
  c_rulesets : list ruleset_art;
  c_ctxs : list ctx_art;
  c_joined : dfa nat;                 (* after add_dfa and update_backtracks *)
  c_simplified : dfa trans;
  c_entries : list (name * nat);      (* after simplify *)
  c_program : program
}.

(* RightCtxDFAs::new_right_ctx *)
Definition new_right_ctx (b : bindings) (ctxs : list ctx_art) (re : regex) : result (list ctx_art * nat) :=
  do n <- add_regex benv b nfa_new re None 0;
  do dm <- nfa_to_dfa_map n;
  Ok (ctxs ++ [mkCA n (fst dm) (snd dm)], length ctxs).

(* compile_single_rule *)
Definition compile_single_rule (n : nfa) (r : rule) (b : bindings) (ctxs : list ctx_art)
  : result (nfa * list ctx_art) :=
  do c <- match ru_ctx r with
          | None => Ok (ctxs, None)
          | Some re => do x <- new_right_ctx b ctxs re; Ok (fst x, Some (snd x))
          end;
  do n' <- add_regex benv b n (ru_re r) (snd c) (ru_act r);
  Ok (n', fst c).

(* compile_rule_set: rules and bindings in order; a binding shadows nothing: duplicates panic *)
Fixpoint compile_rules (rules : list rob) (n : nfa) (b : bindings) (ctxs : list ctx_art)
  : result (nfa * list ctx_art) :=
  match rules with
  | [] => Ok (n, ctxs)
  | RBRule r :: rest =>
      do x <- compile_single_rule n r b ctxs;
      compile_rules rest (fst x) b (snd x)
  | RBBinding v re :: rest =>
      match lookup_var v b with
      | Some _ => Panic TagDupVar
      | None => compile_rules rest n (b ++ [(v, re)]) ctxs
      end
  end.

Record dstate_acc := mkDA {
  da_bindings : bindings;
  da_unnamed : nfa;
  da_init : option (dfa nat);
  da_entries : list (name * nat);
  da_ctxs : list ctx_art;
  da_arts : list ruleset_art;
  da_errty : bool
}.

Definition mixed (d : def) : bool :=
  existsb (fun t => match t with TRob (RBRule _) => true | _ => false end) d
  && existsb (fun t => match t with TRuleSet _ _ => true | _ => false end) d.

Fixpoint assoc_name {A} (k : name) (l : list (name * A)) : option A :=
  match l with
  | [] => None
  | (k', v) :: t => if name_eqb k k' then Some v else assoc_name k t
  end.

Definition top_step (a : dstate_acc) (t : top) : result dstate_acc :=
  match t with
  | TErrorType =>
      if da_errty a then Panic TagDupErrorType
      else Ok (mkDA (da_bindings a) (da_unnamed a) (da_init a) (da_entries a) (da_ctxs a) (da_arts a) true)
  | TRob (RBBinding v re) =>
      match lookup_var v (da_bindings a) with
      | Some _ => Panic TagDupVar
      | None => Ok (mkDA (da_bindings a ++ [(v, re)]) (da_unnamed a) (da_init a) (da_entries a)
                         (da_ctxs a) (da_arts a) (da_errty a))
      end
  | TRob (RBRule r) =>
      do x <- compile_single_rule (da_unnamed a) r (da_bindings a) (da_ctxs a);
      Ok (mkDA (da_bindings a) (fst x) (da_init a) (da_entries a) (snd x) (da_arts a) (da_errty a))
  | TRuleSet nm rules =>
      if name_eqb nm name_Init then
        do x <- compile_rules rules nfa_new (da_bindings a) (da_ctxs a);
        do dm <- nfa_to_dfa_map (fst x);
        (* `init_dfa.insert(...)`: a second Init replaces the DFA before the duplicate check *)
        match assoc_name nm (da_entries a) with
        | Some _ => Panic TagDupRuleSet
        | None =>
            Ok (mkDA (da_bindings a) (da_unnamed a) (Some (fst dm)) (da_entries a ++ [(nm, 0)])
                     (snd x) (da_arts a ++ [mkRA (Some nm) (fst x) (fst dm) (snd dm)]) (da_errty a))
        end
      else
        match da_init a with
        | None => Panic TagFirstNotInit
        | Some init =>
            do x <- compile_rules rules nfa_new (da_bindings a) (da_ctxs a);
            do dm <- nfa_to_dfa_map (fst x);
            let (joined, idx) := add_dfa init (fst dm) in
            match assoc_name nm (da_entries a) with
            | Some _ => Panic TagDupRuleSet
            | None =>
                Ok (mkDA (da_bindings a) (da_unnamed a) (Some joined) (da_entries a ++ [(nm, idx)])
                         (snd x) (da_arts a ++ [mkRA (Some nm) (fst x) (fst dm) (snd dm)]) (da_errty a))
            end
        end
  end.

Definition compile (d : def) : result compiled :=
  if mixed d then Panic TagMixedRules else
  do a <- fold_left (fun acc t => do x <- acc; top_step x t) d
                    (Ok (mkDA [] nfa_new None [] [] [] false));
  do ja <- match da_init a with
           | Some init => Ok (init, da_arts a)
           | None => do dm <- nfa_to_dfa_map (da_unnamed a);
                     Ok (fst dm, [mkRA None (da_unnamed a) (fst dm) (snd dm)])
           end;
  do bt <- update_backtracks (fst ja);
  do s <- simplify bt (da_entries a);
  do p <- make_program max_guard (fst s) (snd s) (map ca_dfa (da_ctxs a));
  Ok (mkCompiled (snd ja) (da_ctxs a) bt (fst s) (snd s) p).

End Driver.
