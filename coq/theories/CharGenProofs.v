(* Proofs about the model of generate_char_fn_ranges (CharGen.v): the generated list is exact
   on scalar values, well formed, has scalar end points, is maximal, and is the unique list
   with these four properties. *)
From LexVerif Require Import Base CharClass CharGen.
Open Scope N_scope.

Local Arguments in_pairs : simpl never.
Local Arguments in_pair : simpl never.

(* ------------------------------------------------------------------ *)
(* reflection lemmas                                                   *)
(* ------------------------------------------------------------------ *)

Lemma sc_true : forall c,
  is_scalar c = true <-> (c < 55296 \/ (57343 < c /\ c <= 1114111)).
Proof.
  intros c. unfold is_scalar, SURR_LO, SURR_HI, CHAR_MAX.
  rewrite orb_true_iff, andb_true_iff, !N.ltb_lt, N.leb_le. tauto.
Qed.

Lemma sc_false : forall c,
  is_scalar c = false <-> ((55296 <= c /\ c <= 57343) \/ 1114111 < c).
Proof.
  intros c. unfold is_scalar, SURR_LO, SURR_HI, CHAR_MAX.
  rewrite orb_false_iff, andb_false_iff, !N.ltb_ge, N.leb_gt. lia.
Qed.

Ltac sc :=
  repeat match goal with
  | H : is_scalar _ = true |- _ => apply sc_true in H
  | H : is_scalar _ = false |- _ => apply sc_false in H
  | |- is_scalar _ = true => apply sc_true
  | |- is_scalar _ = false => apply sc_false
  end.

Lemma ip_true : forall a b c, in_pair (a, b) c = true <-> (a <= c /\ c <= b).
Proof. intros. unfold in_pair; simpl. rewrite andb_true_iff, !N.leb_le. tauto. Qed.

Lemma ip_false : forall a b c, in_pair (a, b) c = false <-> (c < a \/ b < c).
Proof. intros. unfold in_pair; simpl. rewrite andb_false_iff, !N.leb_gt. tauto. Qed.

Lemma in_pairs_cons : forall p t c, in_pairs (p :: t) c = in_pair p c || in_pairs t c.
Proof. reflexivity. Qed.

Lemma in_pairs_nil : forall c, in_pairs [] c = false.
Proof. reflexivity. Qed.

Lemma in_pairs_rev : forall D c, in_pairs (rev D) c = in_pairs D c.
Proof.
  intros D c. unfold in_pairs. induction D as [|p D IH]; simpl; auto.
  rewrite existsb_app, IH. simpl. rewrite orb_false_r. apply orb_comm.
Qed.

Lemma in_pairs_above : forall D c,
  (forall p, In p D -> snd p < c) -> in_pairs D c = false.
Proof.
  induction D as [|[a b] D IH]; intros c H; auto.
  rewrite in_pairs_cons, IH by (intros; apply H; simpl; auto).
  rewrite orb_false_r. apply ip_false. right. apply (H (a, b)). simpl; auto.
Qed.

(* ------------------------------------------------------------------ *)
(* ascending-list facts                                                *)
(* ------------------------------------------------------------------ *)

Lemma wf_from_cons : forall lb a b t,
  pairs_wf_from lb ((a, b) :: t) = true <->
  (a <= b /\ (forall x, lb = Some x -> x < a) /\ pairs_wf_from (Some b) t = true).
Proof.
  intros lb a b t. simpl. rewrite !andb_true_iff, N.leb_le.
  destruct lb as [x|].
  - rewrite N.ltb_lt. split.
    + intros [[H1 H2] H3]. repeat split; auto. intros y E. inversion E; subst; auto.
    + intros [H1 [H2 H3]]. repeat split; auto.
  - split.
    + intros [[H1 _] H3]. repeat split; auto. intros y E. discriminate.
    + intros [H1 [_ H3]]. repeat split; auto.
Qed.

Lemma wf_from_weaken : forall lb t, pairs_wf_from lb t = true -> pairs_wf t = true.
Proof.
  intros lb [|[a b] t] H; auto. unfold pairs_wf.
  apply wf_from_cons in H. apply wf_from_cons.
  destruct H as [H1 [_ H3]]. repeat split; auto. intros; discriminate.
Qed.

Lemma wf_from_in : forall t lb c,
  pairs_wf_from lb t = true -> in_pairs t c = true ->
  (forall x, lb = Some x -> x < c) /\
  match t with [] => False | (a, _) :: _ => a <= c end.
Proof.
  induction t as [|[a b] t IH]; intros lb c Hwf Hin.
  - rewrite in_pairs_nil in Hin. discriminate.
  - apply wf_from_cons in Hwf. destruct Hwf as [Hab [Hlb Hwf]].
    rewrite in_pairs_cons in Hin. apply orb_true_iff in Hin.
    destruct Hin as [Hin|Hin].
    + apply ip_true in Hin. split; [|lia].
      intros x E. specialize (Hlb x E). lia.
    + destruct (IH (Some b) c Hwf Hin) as [Hb _].
      specialize (Hb b eq_refl). split; [|lia].
      intros x E. specialize (Hlb x E). lia.
Qed.

Lemma gaps_tail : forall p t, gaps_have_scalar (p :: t) -> gaps_have_scalar t.
Proof.
  intros [a b] [|[c d] t]; simpl; auto. intros [_ H]; auto.
Qed.

(* ------------------------------------------------------------------ *)
(* the descending (most recent first) list kept by the loop            *)
(* ------------------------------------------------------------------ *)

Definition dlist (st : gstate) : list (N * N) :=
  match g_cur st with
  | Some s => (s, g_last st) :: g_ranges st
  | None => g_ranges st
  end.

Lemma gen_finish_dlist : forall st, gen_finish st = rev (dlist st).
Proof. reflexivity. Qed.

Fixpoint dgood (D : list (N * N)) : Prop :=
  match D with
  | [] => True
  | (a, b) :: D' =>
      a <= b /\ is_scalar a = true /\ is_scalar b = true /\
      (match D' with
       | [] => True
       | (_, b') :: _ => exists x, (b' < x < a) /\ is_scalar x = true
       end) /\
      dgood D'
  end.

Definition link (D acc : list (N * N)) : Prop :=
  match D, acc with
  | (_, b) :: _, (a', _) :: _ => exists x, (b < x < a') /\ is_scalar x = true
  | _, _ => True
  end.

Lemma wf_from_some : forall acc b,
  pairs_wf acc = true ->
  (match acc with [] => True | (a', _) :: _ => b < a' end) ->
  pairs_wf_from (Some b) acc = true.
Proof.
  intros [|[a' b'] acc] b H Hb; auto.
  unfold pairs_wf in H. apply wf_from_cons in H. apply wf_from_cons.
  destruct H as [H1 [_ H3]]. repeat split; auto.
  intros x E. inversion E; subst; auto.
Qed.

Lemma rev_append_good : forall D acc,
  dgood D -> pairs_wf acc = true -> all_scalar_endpoints acc = true ->
  gaps_have_scalar acc -> link D acc ->
  pairs_wf (rev_append D acc) = true /\
  all_scalar_endpoints (rev_append D acc) = true /\
  gaps_have_scalar (rev_append D acc).
Proof.
  induction D as [|[a b] D IH]; intros acc Hg Hwf Hse Hgap Hlink.
  - simpl. auto.
  - simpl. destruct Hg as (Hab & Ha & Hb & Hl & Hg). apply IH; auto.
    + unfold pairs_wf. apply wf_from_cons. repeat split; auto.
      * intros; discriminate.
      * apply wf_from_some; auto.
        destruct acc as [|[a' b'] acc]; auto.
        simpl in Hlink. destruct Hlink as [x [? ?]]. lia.
    + simpl. rewrite Ha, Hb, Hse. reflexivity.
    + destruct acc as [|[a' b'] acc]; simpl; auto.
Qed.

Lemma rev_good : forall D, dgood D ->
  pairs_wf (rev D) = true /\ all_scalar_endpoints (rev D) = true /\
  gaps_have_scalar (rev D).
Proof.
  intros D H. rewrite rev_alt. apply rev_append_good; simpl; auto.
  destruct D as [|[a b] D]; simpl; auto.
Qed.

(* ------------------------------------------------------------------ *)
(* loop invariant                                                      *)
(* ------------------------------------------------------------------ *)

Record Inv (f : N -> bool) (n : N) (st : gstate) : Prop := mkInv {
  inv_last_scalar : is_scalar (g_last st) = true;
  inv_last_max : forall x, g_last st < x -> x < n -> is_scalar x = false;
  inv_last_lt : (n = 0 /\ dlist st = []) \/ g_last st < n;
  inv_none : g_cur st = None -> g_ranges st = [] \/ f (g_last st) = false;
  inv_exact : forall c, is_scalar c = true -> c < n -> in_pairs (dlist st) c = f c;
  inv_good : dgood (dlist st);
  inv_bound : forall p, In p (dlist st) -> snd p <= g_last st
}.

Lemma inv_init : forall f, Inv f 0 gen_init.
Proof.
  intros f. constructor; simpl; auto.
  - intros; lia.
  - intros; lia.
  - intros p [].
Qed.

Lemma inv_step : forall f n st, Inv f n st -> Inv f (N.succ n) (gen_step f st n).
Proof.
  intros f n [R cur l] [H1 H2 H3 H4 H5 H6 H7]. unfold dlist in *. simpl in *.
  assert (Hlt : forall p,
            In p (match cur with Some s => (s, l) :: R | None => R end) -> snd p < n).
  { intros p Hp. destruct H3 as [[_ E]|H3].
    - rewrite E in Hp. destruct Hp.
    - specialize (H7 p Hp). lia. }
  unfold gen_step. simpl. destruct (is_scalar n) eqn:Hs.
  2:{ (* not a scalar value: state unchanged *)
    constructor; unfold dlist; simpl; auto.
    - intros x Hx Hxn. destruct (N.eq_dec x n) as [->|]; auto. apply H2; lia.
    - right. destruct H3 as [[-> _]|H3]; [discriminate|lia].
    - intros c Hc Hcn. apply H5; auto.
      destruct (N.eq_dec c n) as [->|]; [congruence|lia]. }
  destruct (f n) eqn:Hf; destruct cur as [s|]; simpl.
  - (* f n, range open: extend it *)
    destruct H6 as (Hsl & Hss & Hls & Hlk & Hg).
    assert (Hln : l < n) by (apply (Hlt (s, l)); simpl; auto).
    constructor; unfold dlist; simpl; auto.
    + intros; lia.
    + right; lia.
    + intros; discriminate.
    + intros c Hc Hcn. rewrite in_pairs_cons.
      destruct (N.eq_dec c n) as [->|Hne].
      * rewrite Hf. apply orb_true_iff. left. apply ip_true. lia.
      * rewrite <- (H5 c Hc) by lia. rewrite in_pairs_cons. f_equal.
        assert (c <= l).
        { destruct (N.le_gt_cases c l) as [|Hgt]; auto.
          assert (is_scalar c = false) by (apply H2; lia). congruence. }
        apply eq_true_iff_eq. rewrite !ip_true. lia.
    + repeat split; auto. lia.
    + intros p [<-|Hp]; simpl; [lia|].
      assert (snd p <= l) by (apply H7; simpl; auto). lia.
  - (* f n, no range open: open (n, n) *)
    constructor; unfold dlist; simpl; auto.
    + intros; lia.
    + right; lia.
    + intros; discriminate.
    + intros c Hc Hcn. rewrite in_pairs_cons.
      destruct (N.eq_dec c n) as [->|Hne].
      * rewrite Hf. apply orb_true_iff. left. apply ip_true. lia.
      * rewrite <- (H5 c Hc) by lia.
        assert (E : in_pair (n, n) c = false) by (apply ip_false; lia).
        rewrite E. reflexivity.
    + repeat split; auto; try lia.
      destruct R as [|[a' b'] R']; auto.
      destruct H6 as (Hab' & Hsa' & Hsb' & _ & _).
      assert (Hb'n : b' < n) by (apply (Hlt (a', b')); simpl; auto).
      assert (Hb'l : b' <= l) by (apply (H7 (a', b')); simpl; auto).
      assert (Hln : l < n) by (destruct H3 as [[_ ?]|]; [discriminate|auto]).
      destruct (H4 eq_refl) as [?|Hfl]; [discriminate|].
      assert (Hfb : f b' = true).
      { rewrite <- (H5 b' Hsb' Hb'n), in_pairs_cons.
        apply orb_true_iff. left. apply ip_true. lia. }
      exists l. split; auto.
      assert (b' <> l) by (intros ->; congruence). lia.
    + intros p [<-|Hp]; simpl; [lia|].
      assert (snd p < n) by (apply Hlt; simpl; auto). lia.
  - (* not f n, range open: close it *)
    assert (Hln : l < n) by (apply (Hlt (s, l)); simpl; auto).
    constructor; unfold dlist; simpl; auto.
    + intros; lia.
    + right; lia.
    + intros c Hc Hcn. destruct (N.eq_dec c n) as [->|Hne].
      * rewrite Hf. apply in_pairs_above. auto.
      * apply H5; auto. lia.
    + intros p Hp. assert (snd p < n) by (apply Hlt; simpl; auto). lia.
  - (* not f n, no range open *)
    constructor; unfold dlist; simpl; auto.
    + intros; lia.
    + right; lia.
    + intros c Hc Hcn. destruct (N.eq_dec c n) as [->|Hne].
      * rewrite Hf. apply in_pairs_above. auto.
      * apply H5; auto. lia.
    + intros p Hp. assert (snd p < n) by (apply Hlt; simpl; auto). lia.
Qed.

(* ------------------------------------------------------------------ *)
(* the loop                                                            *)
(* ------------------------------------------------------------------ *)

Lemma gen_loop_0 : forall f, gen_loop f 0 = (0, gen_init).
Proof. reflexivity. Qed.

Lemma gen_loop_succ : forall f n,
  gen_loop f (N.succ n) =
  (fst (gen_loop f n) + 1, gen_step f (snd (gen_loop f n)) (fst (gen_loop f n))).
Proof. intros. unfold gen_loop. rewrite N.iter_succ. reflexivity. Qed.

Lemma gen_loop_fst : forall f n, fst (gen_loop f n) = n.
Proof.
  intros f. induction n as [|n IH] using N.peano_ind.
  - reflexivity.
  - rewrite gen_loop_succ. simpl. rewrite IH. lia.
Qed.

Lemma gen_loop_inv : forall f n, Inv f n (snd (gen_loop f n)).
Proof.
  intros f. induction n as [|n IH] using N.peano_ind.
  - rewrite gen_loop_0. apply inv_init.
  - rewrite gen_loop_succ, gen_loop_fst. simpl. apply inv_step; auto.
Qed.

Lemma generate_upto_eq : forall f top,
  generate_upto f top = rev (dlist (snd (gen_loop f (top + 1)))).
Proof. reflexivity. Qed.

Theorem generate_upto_exact : forall f top c,
  is_scalar c = true -> c <= top -> in_pairs (generate_upto f top) c = f c.
Proof.
  intros f top c Hc Hct. rewrite generate_upto_eq, in_pairs_rev.
  apply (inv_exact _ _ _ (gen_loop_inv f (top + 1))); auto. lia.
Qed.

Theorem generate_upto_good : forall f top,
  pairs_wf (generate_upto f top) = true /\
  all_scalar_endpoints (generate_upto f top) = true /\
  gaps_have_scalar (generate_upto f top).
Proof.
  intros f top. rewrite generate_upto_eq. apply rev_good.
  apply (inv_good _ _ _ (gen_loop_inv f (top + 1))).
Qed.

(* ------------------------------------------------------------------ *)
(* pinned theorems                                                     *)
(* ------------------------------------------------------------------ *)

Theorem generate_exact : forall f c,
  is_scalar c = true -> in_pairs (generate_char_fn_ranges f) c = f c.
Proof.
  intros f c Hc. unfold generate_char_fn_ranges. apply generate_upto_exact; auto.
  unfold CHAR_MAX. sc. lia.
Qed.

Theorem generate_wf : forall f, pairs_wf (generate_char_fn_ranges f) = true.
Proof.
  intros f. unfold generate_char_fn_ranges.
  destruct (generate_upto_good f CHAR_MAX) as (H1 & H2 & H3). exact H1.
Qed.

Theorem generate_endpoints_scalar : forall f,
  all_scalar_endpoints (generate_char_fn_ranges f) = true.
Proof.
  intros f. unfold generate_char_fn_ranges.
  destruct (generate_upto_good f CHAR_MAX) as (H1 & H2 & H3). exact H2.
Qed.

Theorem generate_maximal : forall f, gaps_have_scalar (generate_char_fn_ranges f).
Proof.
  intros f. unfold generate_char_fn_ranges.
  destruct (generate_upto_good f CHAR_MAX) as (H1 & H2 & H3). exact H3.
Qed.

(* ------------------------------------------------------------------ *)
(* uniqueness of the canonical list                                    *)
(* ------------------------------------------------------------------ *)

Lemma head_le : forall a b t a' b' u,
  a <= b -> a' <= b' -> pairs_wf_from (Some b') u = true ->
  in_pairs ((a, b) :: t) a = in_pairs ((a', b') :: u) a -> a' <= a.
Proof.
  intros a b t a' b' u Hab Hab' Hu H.
  assert (E : in_pairs ((a, b) :: t) a = true).
  { rewrite in_pairs_cons. apply orb_true_iff. left. apply ip_true. lia. }
  rewrite E in H. symmetry in H. rewrite in_pairs_cons in H.
  apply orb_true_iff in H. destruct H as [H|H].
  - apply ip_true in H. lia.
  - destruct (wf_from_in u (Some b') a Hu H) as [Hb _].
    specialize (Hb b' eq_refl). lia.
Qed.

Lemma end_not_lt : forall a b t b' u,
  a <= b -> pairs_wf_from (Some b) t = true -> gaps_have_scalar ((a, b) :: t) ->
  is_scalar b' = true ->
  (forall c, is_scalar c = true ->
     in_pairs ((a, b) :: t) c = in_pairs ((a, b') :: u) c) ->
  b < b' -> False.
Proof.
  intros a b t b' u Hab Hwt Hgap Hsb' Hag Hlt.
  pose proof (Hag b' Hsb') as H. rewrite !in_pairs_cons in H.
  assert (E1 : in_pair (a, b') b' = true) by (apply ip_true; lia).
  assert (E2 : in_pair (a, b) b' = false) by (apply ip_false; lia).
  rewrite E1, E2 in H. simpl in H.
  destruct t as [|[c d] t'].
  - rewrite in_pairs_nil in H. discriminate.
  - destruct (wf_from_in _ _ _ Hwt H) as [_ Hcb'].
    simpl in Hgap. destruct Hgap as [[x [Hx Hsx]] _].
    pose proof (Hag x Hsx) as Hx2. rewrite !in_pairs_cons in Hx2.
    assert (E3 : in_pair (a, b') x = true) by (apply ip_true; lia).
    assert (E4 : in_pair (a, b) x = false) by (apply ip_false; lia).
    rewrite E3, E4 in Hx2. simpl in Hx2. rewrite <- in_pairs_cons in Hx2.
    destruct (wf_from_in _ _ _ Hwt Hx2) as [_ Hcx]. lia.
Qed.

Lemma canonical_unique : forall t u,
  pairs_wf t = true -> pairs_wf u = true ->
  all_scalar_endpoints t = true -> all_scalar_endpoints u = true ->
  gaps_have_scalar t -> gaps_have_scalar u ->
  (forall c, is_scalar c = true -> in_pairs t c = in_pairs u c) ->
  t = u.
Proof.
  induction t as [|[a b] t IH]; intros [|[a' b'] u] Hwt Hwu Hst Hsu Hgt Hgu Hag; auto.
  - exfalso. simpl in Hsu. apply andb_true_iff in Hsu. destruct Hsu as [Hsu _].
    apply andb_true_iff in Hsu. destruct Hsu as [Hsa' _].
    unfold pairs_wf in Hwu. apply wf_from_cons in Hwu. destruct Hwu as [Hab' _].
    specialize (Hag a' Hsa'). rewrite in_pairs_nil, in_pairs_cons in Hag.
    assert (E : in_pair (a', b') a' = true) by (apply ip_true; lia).
    rewrite E in Hag. discriminate.
  - exfalso. simpl in Hst. apply andb_true_iff in Hst. destruct Hst as [Hst _].
    apply andb_true_iff in Hst. destruct Hst as [Hsa _].
    unfold pairs_wf in Hwt. apply wf_from_cons in Hwt. destruct Hwt as [Hab _].
    specialize (Hag a Hsa). rewrite in_pairs_nil, in_pairs_cons in Hag.
    assert (E : in_pair (a, b) a = true) by (apply ip_true; lia).
    rewrite E in Hag. discriminate.
  - simpl in Hst, Hsu.
    apply andb_true_iff in Hst. destruct Hst as [Hst Hst'].
    apply andb_true_iff in Hst. destruct Hst as [Hsa Hsb].
    apply andb_true_iff in Hsu. destruct Hsu as [Hsu Hsu'].
    apply andb_true_iff in Hsu. destruct Hsu as [Hsa' Hsb'].
    unfold pairs_wf in Hwt, Hwu.
    apply wf_from_cons in Hwt. destruct Hwt as [Hab [_ Hwt]].
    apply wf_from_cons in Hwu. destruct Hwu as [Hab' [_ Hwu]].
    assert (Hag' : forall c, is_scalar c = true ->
                     in_pairs ((a', b') :: u) c = in_pairs ((a, b) :: t) c)
      by (intros; symmetry; auto).
    assert (a' <= a) by (apply (head_le a b t a' b' u); auto).
    assert (a <= a') by (apply (head_le a' b' u a b t); auto).
    assert (a' = a) by lia. subst a'.
    assert (~ b < b') by (intros Hlt; apply (end_not_lt a b t b' u); auto).
    assert (~ b' < b) by (intros Hlt; apply (end_not_lt a b' u b t); auto).
    assert (b' = b) by lia. subst b'.
    f_equal. apply IH; auto.
    + apply (wf_from_weaken _ _ Hwt).
    + apply (wf_from_weaken _ _ Hwu).
    + apply (gaps_tail _ _ Hgt).
    + apply (gaps_tail _ _ Hgu).
    + intros c Hc. specialize (Hag c Hc). rewrite !in_pairs_cons in Hag.
      destruct (in_pair (a, b) c) eqn:E; simpl in Hag; auto.
      apply ip_true in E.
      destruct (in_pairs t c) eqn:Et.
      * destruct (wf_from_in _ _ _ Hwt Et) as [Hb _]. specialize (Hb b eq_refl). lia.
      * destruct (in_pairs u c) eqn:Eu; auto.
        destruct (wf_from_in _ _ _ Hwu Eu) as [Hb _]. specialize (Hb b eq_refl). lia.
Qed.

Theorem generate_unique : forall f t,
  pairs_wf t = true -> all_scalar_endpoints t = true -> gaps_have_scalar t ->
  (forall c, is_scalar c = true -> in_pairs t c = f c) ->
  t = generate_char_fn_ranges f.
Proof.
  intros f t Hwf Hse Hgap Hex. apply canonical_unique.
  - exact Hwf.
  - apply generate_wf.
  - exact Hse.
  - apply generate_endpoints_scalar.
  - exact Hgap.
  - apply generate_maximal.
  - intros c Hc. rewrite (generate_exact f c Hc). exact (Hex c Hc).
Qed.

Print Assumptions generate_exact.
Print Assumptions generate_wf.
Print Assumptions generate_endpoints_scalar.
Print Assumptions generate_maximal.
Print Assumptions generate_unique.
