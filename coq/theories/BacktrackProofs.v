(* Proofs about dfa/backtrack.rs as modelled by Dfa.update_backtracks:
   soundness and precision of the computed flags, and sufficiency of the built-in fuel. *)
From Coq Require Import List Arith PArith Pnat NArith Bool Lia.
From LexVerif Require Import Base CharClass RangeMap Regex Nfa Dfa.

(* ------------------------------------------------------------------ *)
(* Pinned definitions                                                  *)
(* ------------------------------------------------------------------ *)

Definition targets_ok (d : dfa nat) : Prop :=
  forall s t, s < length d -> In t (successors (dget d s)) -> t < length d.

(* s -> t is an edge *)
Definition edge (d : dfa nat) (s t : nat) : Prop := s < length d /\ In t (successors (dget d s)).

Definition flags_sound (d : dfa nat) : Prop :=
  forall s t, edge d s t ->
    (d_bt (dget d s) = true \/ is_accepting (dget d s) = true) -> d_bt (dget d t) = true.

(* only the flag changes *)
Definition same_but_flags (d d' : dfa nat) : Prop :=
  length d' = length d /\
  forall s, s < length d ->
    let a := dget d s in let b := dget d' s in
    d_init b = d_init a /\ d_chars b = d_chars a /\ d_ranges b = d_ranges a /\ d_any b = d_any a /\
    d_eoi b = d_eoi a /\ d_acc b = d_acc a /\ d_preds b = d_preds a.

(* reach_acc d s b : s reachable from an initial state; b = saw accepting state strictly before s *)
Inductive reach_acc (d : dfa nat) : nat -> bool -> Prop :=
| RA_init s : s < length d -> d_init (dget d s) = true -> reach_acc d s false
| RA_step s t b : reach_acc d s b -> edge d s t -> reach_acc d t (b || is_accepting (dget d s)).

(* ------------------------------------------------------------------ *)
(* iter_pos as nat-indexed iteration                                   *)
(* ------------------------------------------------------------------ *)

Fixpoint iter_nat {St R} (n : nat) (step : St -> St + R) (s : St) : St + R :=
  match n with
  | O => inl s
  | S n' => match step s with inl s' => iter_nat n' step s' | inr r => inr r end
  end.

Lemma iter_nat_add {St R} a b (step : St -> St + R) s :
  iter_nat (a + b) step s =
  match iter_nat a step s with inl s' => iter_nat b step s' | inr r => inr r end.
Proof.
  revert s; induction a as [|a IH]; intros s; cbn [Nat.add iter_nat]; [reflexivity|].
  destruct (step s); [apply IH|reflexivity].
Qed.

Lemma iter_pos_nat {St R} p (step : St -> St + R) s :
  iter_pos p step s = iter_nat (Pos.to_nat p) step s.
Proof.
  revert s; induction p as [p IH|p IH|]; intros s; cbn [iter_pos].
  - rewrite Pos2Nat.inj_xI. cbn [iter_nat]. destruct (step s) as [s1|r]; [|reflexivity].
    replace (2 * Pos.to_nat p) with (Pos.to_nat p + Pos.to_nat p) by lia.
    rewrite iter_nat_add, <- IH. destruct (iter_pos p step s1); [apply IH|reflexivity].
  - rewrite Pos2Nat.inj_xO.
    replace (2 * Pos.to_nat p) with (Pos.to_nat p + Pos.to_nat p) by lia.
    rewrite iter_nat_add, <- IH. destruct (iter_pos p step s); [apply IH|reflexivity].
  - rewrite Pos2Nat.inj_1. cbn [iter_nat]. destruct (step s); reflexivity.
Qed.

(* ------------------------------------------------------------------ *)
(* association lists keyed by nat                                      *)
(* ------------------------------------------------------------------ *)

Lemma assoc_set_get {A} k k' (v : A) l :
  assoc_nat k' (assoc_nat_set k v l) = if k' =? k then Some v else assoc_nat k' l.
Proof.
  induction l as [|[k0 v0] l IH]; cbn [assoc_nat_set assoc_nat]; [reflexivity|].
  destruct (k =? k0) eqn:E0; cbn [assoc_nat].
  - apply Nat.eqb_eq in E0; subst k0. destruct (k' =? k); reflexivity.
  - rewrite IH. destruct (k' =? k0) eqn:E1; [|reflexivity].
    apply Nat.eqb_eq in E1; subst k0. rewrite Nat.eqb_sym, E0. reflexivity.
Qed.

Lemma assoc_none_keys {A} k (l : list (nat * A)) :
  assoc_nat k l = None <-> ~ In k (map fst l).
Proof.
  induction l as [|[k0 v0] l IH]; cbn [assoc_nat map fst In]; [tauto|].
  destruct (k =? k0) eqn:E.
  - apply Nat.eqb_eq in E. split; [discriminate|]. intros H; exfalso; apply H; left; auto.
  - apply Nat.eqb_neq in E. rewrite IH. split; [intros H [H1|H1]; [congruence|tauto]|tauto].
Qed.

Lemma assoc_some_keys {A} k (l : list (nat * A)) :
  In k (map fst l) -> exists v, assoc_nat k l = Some v.
Proof.
  intros H. destruct (assoc_nat k l) eqn:E; [eexists; reflexivity|].
  apply assoc_none_keys in E. contradiction.
Qed.

Lemma keys_set_in {A} k (v o : A) l :
  assoc_nat k l = Some o -> map fst (assoc_nat_set k v l) = map fst l.
Proof.
  induction l as [|[k0 v0] l IH]; cbn [assoc_nat assoc_nat_set]; [discriminate|].
  destruct (k =? k0) eqn:E; intros H; cbn [map fst].
  - apply Nat.eqb_eq in E; subst; reflexivity.
  - rewrite (IH H). reflexivity.
Qed.

Lemma keys_set_notin {A} k (v : A) l :
  assoc_nat k l = None -> map fst (assoc_nat_set k v l) = map fst l ++ [k].
Proof.
  induction l as [|[k0 v0] l IH]; cbn [assoc_nat assoc_nat_set]; [reflexivity|].
  destruct (k =? k0) eqn:E; intros H; [discriminate|]. cbn [map fst app].
  rewrite (IH H). reflexivity.
Qed.

Lemma NoDup_snoc {A} (l : list A) k : NoDup l -> ~ In k l -> NoDup (l ++ [k]).
Proof.
  induction 1 as [|x l Hx Hl IH]; intros Hk; cbn [app].
  - constructor; [intros []|constructor].
  - constructor.
    + intros Hin. apply in_app_or in Hin. destruct Hin as [Hin|[Hin|[]]]; [tauto|].
      subst. apply Hk. left; reflexivity.
    + apply IH. intros Hin. apply Hk. right; exact Hin.
Qed.

(* ------------------------------------------------------------------ *)
(* lists indexed by seq                                                *)
(* ------------------------------------------------------------------ *)

Lemma nth_map_combine_seq {A B} (F : nat * A -> B) (d : list A) s defB defA :
  s < length d ->
  nth s (map F (combine (seq 0 (length d)) d)) defB = F (s, nth s d defA).
Proof.
  intros H.
  rewrite (nth_indep _ defB (F (0, defA))).
  2:{ rewrite map_length, combine_length, seq_length, Nat.min_id. exact H. }
  rewrite map_nth, combine_nth by apply seq_length.
  rewrite seq_nth by exact H. reflexivity.
Qed.

Lemma in_combine_seq {A} (d : list A) i x def :
  In (i, x) (combine (seq 0 (length d)) d) -> i < length d /\ x = nth i d def.
Proof.
  intros H. apply (In_nth _ _ (0, def)) in H. destruct H as [j [Hj E]].
  rewrite combine_length, seq_length, Nat.min_id in Hj.
  rewrite combine_nth in E by apply seq_length. rewrite seq_nth in E by exact Hj.
  inversion E; subst. split; [exact Hj|reflexivity].
Qed.

Lemma map_nth_seq {A B} (h : A -> B) (d : list A) def a :
  map (fun s => h (nth (s - a) d def)) (seq a (length d)) = map h d.
Proof.
  revert a; induction d as [|x d IH]; intros a; [reflexivity|].
  cbn [length seq map]. rewrite Nat.sub_diag. cbn [nth]. f_equal.
  rewrite <- (IH (S a)). apply map_ext_in. intros i Hi. apply in_seq in Hi.
  replace (i - a) with (S (i - S a)) by lia. reflexivity.
Qed.

Lemma filter_length_le' {A} (f : A -> bool) l : length (filter f l) <= length l.
Proof.
  induction l as [|x l IH]; [apply le_n|]. cbn [filter]. destruct (f x); cbn [length]; lia.
Qed.

(* ------------------------------------------------------------------ *)
(* the work-list loop                                                  *)
(* ------------------------------------------------------------------ *)

Definition push_succ (d : dfa nat) (st : nat) (b : bool) (work : list (nat * bool)) :=
  fold_left (fun w x => (x, b) :: w) (successors (dget d st)) work.

Lemma push_fold_eq (b : bool) (l : list nat) work :
  fold_left (fun w x => (x, b) :: w) l work = rev (map (fun x => (x, b)) l) ++ work.
Proof.
  revert work; induction l as [|x l IH]; intros work; [reflexivity|].
  cbn [fold_left map rev]. rewrite IH, <- app_assoc. reflexivity.
Qed.

Lemma in_push d st b work t fl :
  In (t, fl) (push_succ d st b work) <->
  (fl = b /\ In t (successors (dget d st))) \/ In (t, fl) work.
Proof.
  unfold push_succ. rewrite push_fold_eq, in_app_iff, <- in_rev, in_map_iff.
  split.
  - intros [[x [E Hx]]|H]; [|right; exact H]. inversion E; subst. left; split; auto.
  - intros [[-> H]|H]; [|right; exact H]. left. exists t. split; auto.
Qed.

Lemma push_length d st b work :
  length (push_succ d st b work) = length (successors (dget d st)) + length work.
Proof.
  unfold push_succ. rewrite push_fold_eq, app_length, rev_length, map_length. reflexivity.
Qed.

Definition init_work (d : dfa nat) : list (nat * bool) :=
  map (fun i => (i, false))
      (rev (map fst (filter (fun p => d_init (snd p)) (combine (seq 0 (length d)) d)))).

Lemma in_init_work d t b :
  In (t, b) (init_work d) -> b = false /\ t < length d /\ d_init (dget d t) = true.
Proof.
  unfold init_work. intros H. apply in_map_iff in H. destruct H as [i [E H]].
  inversion E; subst. split; [reflexivity|].
  apply in_rev in H. apply in_map_iff in H. destruct H as [[i st] [E' H]].
  cbn [fst] in E'; subst i. apply filter_In in H. destruct H as [H Hi]. cbn [snd] in Hi.
  apply (in_combine_seq d t st dstate_empty) in H. destruct H as [Hlt ->].
  split; [exact Hlt|exact Hi].
Qed.

Lemma init_work_length d : length (init_work d) <= length d.
Proof.
  unfold init_work. rewrite map_length, rev_length, map_length.
  eapply Nat.le_trans; [apply filter_length_le'|].
  rewrite combine_length, seq_length, Nat.min_id. apply le_n.
Qed.

(* case analysis of one loop iteration *)
Lemma bt_step_cases d w V :
  (w = [] /\ bt_step d (mkBT w V) = inr V) \/
  (exists st bt w', w = (st, bt) :: w' /\
     ((exists old, assoc_nat st V = Some old /\ (bt = true -> old = true) /\
                   bt_step d (mkBT w V) = inl (mkBT w' V))
      \/
      ((forall old, assoc_nat st V = Some old -> old = false /\ bt = true) /\
       bt_step d (mkBT w V) =
       inl (mkBT (push_succ d st (bt || is_accepting (dget d st)) w') (assoc_nat_set st bt V))))).
Proof.
  destruct w as [|[st bt] w']; [left; split; reflexivity|].
  right. exists st, bt, w'. split; [reflexivity|].
  unfold bt_step. cbn [bt_work bt_visited].
  destruct (assoc_nat st V) as [old|] eqn:E.
  - destruct old, bt; cbn [orb negb].
    + left. exists true. repeat split; auto.
    + left. exists true. repeat split; auto.
    + right. split; [intros old H; inversion H; auto|reflexivity].
    + left. exists false. repeat split; auto.
  - right. split; [intros old H; discriminate|reflexivity].
Qed.

(* generic invariant rule for the loop *)
Lemma bt_loop_inv d (I : list (nat * bool) -> list (nat * bool) -> Prop) :
  (forall st bt w V old, I ((st, bt) :: w) V -> assoc_nat st V = Some old ->
                         (bt = true -> old = true) -> I w V) ->
  (forall st bt w V, I ((st, bt) :: w) V ->
                     (forall old, assoc_nat st V = Some old -> old = false /\ bt = true) ->
                     I (push_succ d st (bt || is_accepting (dget d st)) w) (assoc_nat_set st bt V)) ->
  forall k w V, I w V ->
    match iter_nat k (bt_step d) (mkBT w V) with
    | inl s => I (bt_work s) (bt_visited s)
    | inr V' => I [] V'
    end.
Proof.
  intros Hskip Hpro k; induction k as [|k IH]; intros w V HI; cbn [iter_nat]; [exact HI|].
  destruct (bt_step_cases d w V) as [[-> E]|[st [bt [w' [-> [[old [Ho [Hb E]]]|[Hp E]]]]]]];
    rewrite E.
  - exact HI.
  - apply IH. eapply Hskip; eauto.
  - apply IH. apply Hpro; auto.
Qed.

(* shape of a successful run *)
Definition final_dfa (d : dfa nat) (visited : list (nat * bool)) : dfa nat :=
  map (fun p => let st := snd p in
                mkD (d_init st) (d_chars st) (d_ranges st) (d_any st) (d_eoi st)
                    (d_acc st) (d_preds st)
                    (match assoc_nat (fst p) visited with Some b => b | None => false end))
      (combine (seq 0 (length d)) d).

Lemma update_backtracks_ok_inv d d' :
  update_backtracks d = Ok d' ->
  exists k V, iter_nat k (bt_step d) (mkBT (init_work d) []) = inr V /\
              length V = length d /\ d' = final_dfa d V.
Proof.
  unfold update_backtracks. rewrite iter_pos_nat.
  fold (init_work d).
  destruct (iter_nat _ _ _) as [s|V] eqn:E; [discriminate|].
  destruct (length V =? length d) eqn:L; cbn [negb]; [|discriminate].
  intros H; inversion H. exists (Pos.to_nat (bt_fuel d)), V.
  split; [exact E|]. split; [apply Nat.eqb_eq; exact L|reflexivity].
Qed.

Lemma final_dfa_length d V : length (final_dfa d V) = length d.
Proof.
  unfold final_dfa. rewrite map_length, combine_length, seq_length, Nat.min_id. reflexivity.
Qed.

Lemma final_dfa_get d V s :
  s < length d ->
  dget (final_dfa d V) s =
  let st := dget d s in
  mkD (d_init st) (d_chars st) (d_ranges st) (d_any st) (d_eoi st) (d_acc st) (d_preds st)
      (match assoc_nat s V with Some b => b | None => false end).
Proof.
  intros H. unfold dget, final_dfa.
  rewrite (nth_map_combine_seq _ d s dstate_empty dstate_empty H). reflexivity.
Qed.

Lemma final_same_but_flags d V : same_but_flags d (final_dfa d V).
Proof.
  split; [apply final_dfa_length|].
  intros s Hs. rewrite (final_dfa_get d V s Hs). cbn. repeat split; reflexivity.
Qed.

(* ------------------------------------------------------------------ *)
(* Soundness                                                           *)
(* ------------------------------------------------------------------ *)

Definition edge_inv (d : dfa nat) (w V : list (nat * bool)) : Prop :=
  forall s f, assoc_nat s V = Some f -> forall t, In t (successors (dget d s)) ->
    (exists f', assoc_nat t V = Some f' /\ (f || is_accepting (dget d s) = true -> f' = true)) \/
    (exists fl, In (t, fl) w /\ (f || is_accepting (dget d s) = true -> fl = true)).

Definition sound_inv (d : dfa nat) (w V : list (nat * bool)) : Prop :=
  NoDup (map fst V) /\
  (forall k, In k (map fst V) -> k < length d) /\
  (forall t b, In (t, b) w -> t < length d) /\
  edge_inv d w V.

Lemma sound_inv_loop d :
  targets_ok d ->
  forall k w V, sound_inv d w V ->
    match iter_nat k (bt_step d) (mkBT w V) with
    | inl s => sound_inv d (bt_work s) (bt_visited s)
    | inr V' => sound_inv d [] V'
    end.
Proof.
  intros Htg. apply bt_loop_inv.
  - (* skip *)
    intros st bt w V old [Hnd [Hk [Hw E]]] Ho Hb.
    split; [exact Hnd|]. split; [exact Hk|]. split.
    { intros t b H. apply (Hw t b). right; exact H. }
    intros s f Hs t Ht. destruct (E s f Hs t Ht) as [L|[fl [Hin Himp]]]; [left; exact L|].
    destruct Hin as [Heq|Hin].
    + inversion Heq; subst t fl. left. exists old. split; [exact Ho|].
      intros Hn. apply Hb, Himp, Hn.
    + right. exists fl. split; assumption.
  - (* proceed *)
    intros st bt w V [Hnd [Hk [Hw E]]] Hp.
    assert (Hst : st < length d) by (apply (Hw st bt); left; reflexivity).
    split; [|split; [|split]].
    + destruct (assoc_nat st V) as [o|] eqn:Eo.
      * rewrite (keys_set_in st bt o V Eo). exact Hnd.
      * rewrite (keys_set_notin st bt V Eo). apply NoDup_snoc; [exact Hnd|].
        apply assoc_none_keys. exact Eo.
    + intros k Hin. destruct (assoc_nat st V) as [o|] eqn:Eo.
      * rewrite (keys_set_in st bt o V Eo) in Hin. apply Hk; exact Hin.
      * rewrite (keys_set_notin st bt V Eo) in Hin. apply in_app_or in Hin.
        destruct Hin as [Hin|[Hin|[]]]; [apply Hk; exact Hin|subst; exact Hst].
    + intros t b Hin. apply in_push in Hin. destruct Hin as [[_ Hin]|Hin].
      * apply (Htg st t Hst Hin).
      * apply (Hw t b). right; exact Hin.
    + intros s f Hs t Ht. rewrite assoc_set_get in Hs.
      destruct (s =? st) eqn:Es.
      * apply Nat.eqb_eq in Es; subst s. inversion Hs; subst f.
        right. exists (bt || is_accepting (dget d st)). split; [|auto].
        apply in_push. left. split; [reflexivity|exact Ht].
      * destruct (E s f Hs t Ht) as [[f' [Hf' Himp]]|[fl [Hin Himp]]].
        -- left. rewrite assoc_set_get. destruct (t =? st) eqn:Et.
           ++ apply Nat.eqb_eq in Et; subst t. exists bt. split; [reflexivity|].
              intros _. destruct (Hp f' Hf') as [_ Hb]. exact Hb.
           ++ exists f'. split; assumption.
        -- destruct Hin as [Heq|Hin].
           ++ inversion Heq; subst t fl. left. exists bt.
              rewrite assoc_set_get, Nat.eqb_refl. split; [reflexivity|exact Himp].
           ++ right. exists fl. split; [|exact Himp]. apply in_push. right; exact Hin.
Qed.

Lemma sound_inv_init d : sound_inv d (init_work d) [].
Proof.
  split; [constructor|]. split; [intros k []|]. split.
  - intros t b H. apply in_init_work in H. tauto.
  - intros s f H. discriminate.
Qed.

(* The pinned statement without [targets_ok] is false (see [sound_needs_targets_ok] below);
   this is the closest true statement: the extra hypothesis is [targets_ok d]. *)
Theorem update_backtracks_sound : forall d d',
  targets_ok d ->
  update_backtracks d = Ok d' -> same_but_flags d d' /\ flags_sound d'.
Proof.
  intros d d' Htg H.
  destruct (update_backtracks_ok_inv d d' H) as [k [V [Hrun [Hlen ->]]]].
  split; [apply final_same_but_flags|].
  pose proof (sound_inv_loop d Htg k _ _ (sound_inv_init d)) as Hinv.
  rewrite Hrun in Hinv. destruct Hinv as [Hnd [Hk [_ E]]].
  (* every state is visited *)
  assert (Hall : forall s, s < length d -> exists f, assoc_nat s V = Some f).
  { intros s Hs. apply assoc_some_keys.
    apply (NoDup_length_incl Hnd (l' := seq 0 (length d))).
    - rewrite seq_length, map_length, Hlen. apply le_n.
    - intros x Hx. apply in_seq. split; [lia|]. cbn. apply Hk; exact Hx.
    - apply in_seq. lia. }
  intros s t [Hs Ht] Hor. rewrite final_dfa_length in Hs.
  rewrite (final_dfa_get d V s Hs) in Ht, Hor. cbn [d_bt] in Hor.
  assert (Hsucc : In t (successors (dget d s))) by exact Ht.
  assert (Hacc : forall b, is_accepting (let st := dget d s in
             mkD (d_init st) (d_chars st) (d_ranges st) (d_any st) (d_eoi st) (d_acc st)
                 (d_preds st) b) = is_accepting (dget d s)) by reflexivity.
  rewrite Hacc in Hor. clear Ht Hacc.
  destruct (Hall s Hs) as [f Hf]. rewrite Hf in Hor.
  destruct (E s f Hf t Hsucc) as [[f' [Hf' Himp]]|[fl [[] _]]].
  assert (Ht : t < length d) by (apply (Htg s t Hs Hsucc)).
  rewrite (final_dfa_get d V t Ht). cbn [d_bt]. rewrite Hf'. apply Himp.
  destruct Hor as [->| ->]; [reflexivity|apply orb_true_r].
Qed.

(* Counterexample to the statement without [targets_ok]: state 0 is initial and accepting with
   an any-transition to the non-existent state 5; state 1 is unreachable. The run visits keys
   {0, 5}, so the length check passes, yet the edge 0 -> 5 leaves an accepting state and
   [dget d' 5] is the default state whose flag is false. *)
Example sound_needs_targets_ok :
  exists d d', update_backtracks d = Ok d' /\ ~ flags_sound d'.
Proof.
  exists [mkD true [] [] (Some 5) None [(0, None)] [] false;
          mkD false [] [] None None [] [] false].
  eexists. split; [vm_compute; reflexivity|].
  intros H. specialize (H 0 5).
  assert (C : false = true); [|discriminate].
  apply H; [split; [cbn; lia|cbn; auto]|right; reflexivity].
Qed.

(* ------------------------------------------------------------------ *)
(* Precision                                                           *)
(* ------------------------------------------------------------------ *)

Definition prec_inv (d : dfa nat) (w V : list (nat * bool)) : Prop :=
  (forall t b, In (t, b) w -> reach_acc d t b) /\
  (forall t b, assoc_nat t V = Some b -> reach_acc d t b).

Lemma successors_overflow (d : dfa nat) st : length d <= st -> successors (dget d st) = [].
Proof. intros H. unfold dget. rewrite nth_overflow by exact H. reflexivity. Qed.

Lemma prec_inv_loop d :
  forall k w V, prec_inv d w V ->
    match iter_nat k (bt_step d) (mkBT w V) with
    | inl s => prec_inv d (bt_work s) (bt_visited s)
    | inr V' => prec_inv d [] V'
    end.
Proof.
  apply bt_loop_inv.
  - intros st bt w V old [Hw Hv] _ _. split; [|exact Hv].
    intros t b H. apply Hw. right; exact H.
  - intros st bt w V [Hw Hv] _.
    assert (Hst : reach_acc d st bt) by (apply Hw; left; reflexivity).
    split.
    + intros t b Hin. apply in_push in Hin. destruct Hin as [[-> Hin]|Hin].
      * apply RA_step; [exact Hst|]. split; [|exact Hin].
        destruct (Nat.lt_ge_cases st (length d)) as [L|L]; [exact L|].
        rewrite (successors_overflow d st L) in Hin. destruct Hin.
      * apply Hw. right; exact Hin.
    + intros t b Ht. rewrite assoc_set_get in Ht. destruct (t =? st) eqn:Et.
      * apply Nat.eqb_eq in Et; subst t. inversion Ht; subst b. exact Hst.
      * apply Hv; exact Ht.
Qed.

(* precision: a flag is set only if a path from an initial state passes through an accepting
   state before *)
Theorem update_backtracks_precise : forall d d' t,
  update_backtracks d = Ok d' -> t < length d -> d_bt (dget d' t) = true -> reach_acc d t true.
Proof.
  intros d d' t H Ht Hbt.
  destruct (update_backtracks_ok_inv d d' H) as [k [V [Hrun [Hlen ->]]]].
  assert (Hinit : prec_inv d (init_work d) []).
  { split; [|intros ? ? ?; discriminate].
    intros s b Hin. apply in_init_work in Hin. destruct Hin as [-> [Hs Hi]].
    apply RA_init; assumption. }
  pose proof (prec_inv_loop d k _ _ Hinit) as Hinv. rewrite Hrun in Hinv.
  destruct Hinv as [_ Hv].
  rewrite (final_dfa_get d V t Ht) in Hbt. cbn [d_bt] in Hbt.
  destruct (assoc_nat t V) as [b|] eqn:E; [|discriminate]. subst b. apply Hv; exact E.
Qed.

(* ------------------------------------------------------------------ *)
(* Termination: the built-in fuel suffices                             *)
(* ------------------------------------------------------------------ *)

Definition credit (V : list (nat * bool)) (s : nat) : nat :=
  match assoc_nat s V with None => 2 | Some false => 1 | Some true => 0 end.

Definition outdeg (d : dfa nat) (s : nat) : nat := length (successors (dget d s)).

Definition phi (d : dfa nat) (V : list (nat * bool)) : nat :=
  list_sum (map (fun s => credit V s * outdeg d s) (seq 0 (length d))).

Lemma list_sum_cons a l : list_sum (a :: l) = a + list_sum l.
Proof. reflexivity. Qed.

Lemma sum_le (f f' : nat -> nat) l :
  (forall y, In y l -> f' y <= f y) -> list_sum (map f' l) <= list_sum (map f l).
Proof.
  induction l as [|a l IH]; intros H; [apply le_n|]. cbn [map]; rewrite ?list_sum_cons.
  pose proof (H a (or_introl eq_refl)).
  assert (list_sum (map f' l) <= list_sum (map f l)) by (apply IH; intros y Hy; apply H; right; exact Hy).
  lia.
Qed.

Lemma sum_dec (f f' : nat -> nat) l x c :
  (forall y, In y l -> f' y <= f y) -> In x l -> f' x + c <= f x ->
  list_sum (map f' l) + c <= list_sum (map f l).
Proof.
  induction l as [|a l IH]; intros H Hin Hx; [destruct Hin|]. cbn [map]; rewrite ?list_sum_cons.
  destruct Hin as [->|Hin].
  - assert (list_sum (map f' l) <= list_sum (map f l))
      by (apply sum_le; intros y Hy; apply H; right; exact Hy).
    lia.
  - pose proof (H a (or_introl eq_refl)).
    assert (list_sum (map f' l) + c <= list_sum (map f l))
      by (apply IH; [intros y Hy; apply H; right; exact Hy|exact Hin|exact Hx]).
    lia.
Qed.

Lemma credit_set V st bt s :
  credit (assoc_nat_set st bt V) s =
  if s =? st then (if bt then 0 else 1) else credit V s.
Proof.
  unfold credit. rewrite assoc_set_get. destruct (s =? st); [destruct bt|]; reflexivity.
Qed.

Lemma credit_dec V st bt :
  (forall old, assoc_nat st V = Some old -> old = false /\ bt = true) ->
  credit (assoc_nat_set st bt V) st + 1 <= credit V st.
Proof.
  intros Hp. rewrite credit_set, Nat.eqb_refl. unfold credit.
  destruct (assoc_nat st V) as [old|] eqn:E.
  - destruct (Hp old eq_refl) as [-> ->]. apply le_n.
  - destruct bt; lia.
Qed.

Lemma phi_dec d V st bt :
  (forall old, assoc_nat st V = Some old -> old = false /\ bt = true) ->
  phi d (assoc_nat_set st bt V) + outdeg d st <= phi d V.
Proof.
  intros Hp. pose proof (credit_dec V st bt Hp) as Hc.
  assert (Hle : forall y, credit (assoc_nat_set st bt V) y * outdeg d y <= credit V y * outdeg d y).
  { intros y. apply Nat.mul_le_mono_r. rewrite credit_set. destruct (y =? st) eqn:Ey; [|apply le_n].
    apply Nat.eqb_eq in Ey; subst y. rewrite credit_set, Nat.eqb_refl in Hc. lia. }
  unfold phi. destruct (Nat.lt_ge_cases st (length d)) as [L|L].
  - apply (sum_dec (fun s => credit V s * outdeg d s)
                   (fun s => credit (assoc_nat_set st bt V) s * outdeg d s) _ st).
    + intros y _. apply Hle.
    + apply in_seq. lia.
    + cbv beta.
      assert ((credit (assoc_nat_set st bt V) st + 1) * outdeg d st <= credit V st * outdeg d st)
        by (apply Nat.mul_le_mono_r; exact Hc).
      lia.
  - unfold outdeg at 2. rewrite (successors_overflow d st L). cbn [length]. rewrite Nat.add_0_r.
    apply sum_le. intros y _. apply Hle.
Qed.

Lemma bt_loop_terminates d :
  forall k w V, length w + phi d V < k ->
    exists r, iter_nat k (bt_step d) (mkBT w V) = inr r.
Proof.
  induction k as [|k IH]; intros w V Hm; [lia|]. cbn [iter_nat].
  destruct (bt_step_cases d w V) as [[-> E]|[st [bt [w' [-> [[old [Ho [Hb E]]]|[Hp E]]]]]]];
    rewrite E.
  - eexists; reflexivity.
  - apply IH. cbn [length] in Hm. lia.
  - apply IH. rewrite push_length. pose proof (phi_dec d V st bt Hp) as Hd.
    unfold outdeg in Hd at 1. cbn [length] in Hm. lia.
Qed.

Lemma fold_sum {A} (g : A -> nat) l a :
  fold_left (fun acc x => acc + g x) l a = a + list_sum (map g l).
Proof.
  revert a; induction l as [|x l IH]; intros a; cbn [fold_left map]; rewrite ?list_sum_cons; [cbn; lia|].
  rewrite IH. lia.
Qed.

Lemma phi_init d : phi d [] = 2 * count_edges d.
Proof.
  unfold phi, count_edges. rewrite fold_sum. cbn [Nat.add].
  rewrite <- (map_nth_seq (fun st => length (successors st)) d dstate_empty 0).
  generalize (seq 0 (length d)). intros l. induction l as [|x l IH]; [reflexivity|].
  cbn [map]; rewrite ?list_sum_cons. rewrite IH. unfold credit, outdeg, dget. cbn [assoc_nat].
  rewrite Nat.sub_0_r. lia.
Qed.

Lemma update_backtracks_terminates_strong : forall d,
  update_backtracks d <> Panic TagOutOfFuel.
Proof.
  intros d. unfold update_backtracks. rewrite iter_pos_nat. fold (init_work d).
  destruct (bt_loop_terminates d (Pos.to_nat (bt_fuel d)) (init_work d) []) as [r Hr].
  - unfold bt_fuel. rewrite SuccNat2Pos.id_succ, phi_init.
    pose proof (init_work_length d). lia.
  - rewrite Hr. destruct (negb _); discriminate.
Qed.

(* termination: the fuel built into the model always suffices
   ([targets_ok] is not needed: states outside the automaton have no successors) *)
Theorem update_backtracks_terminates : forall d,
  targets_ok d -> update_backtracks d <> Panic TagOutOfFuel.
Proof. intros d _. apply update_backtracks_terminates_strong. Qed.

Print Assumptions update_backtracks_sound.
Print Assumptions update_backtracks_precise.
Print Assumptions update_backtracks_terminates.
Print Assumptions sound_needs_targets_ok.
