(* Model of dfa/codegen.rs + codegen/ctx.rs: what the generated `match self.0.__state` looks
   like, as data: which states get an arm, under which pattern, which states are inlined, the
   numbers stored by `switch`, and the shape of every character test. *)
From LexVerif Require Import Base CharClass RangeMap Regex Nfa Dfa.

(* n_arms_to: number of `match` arms in the code of [st] that lead to state s: one for all
   character transitions, one for all range transitions, one for the "any" transition *)
Definition is_target (t : trans) (s : nat) : bool :=
  match t with TGoto n => n =? s | TAccept _ => false end.
Definition n_arms_to (st : dstate trans) (s : nat) : nat :=
  (if existsb (fun p => is_target (snd p) s) (d_chars st) then 1 else 0)
  + (if existsb (fun r => is_target (r_val r) s) (d_ranges st) then 1 else 0)
  + (match d_any st with Some t => if is_target t s then 1 else 0 | None => 0 end).

(* CgCtx::new: a state is inlined when it has exactly one predecessor and exactly one arm of
   that predecessor leads to it *)
Definition inlined_pred (d : dfa trans) (p : nat * dstate trans) : bool :=
  match d_preds (snd p) with
  | [q] => n_arms_to (dget d q) (fst p) =? 1
  | _ => false
  end.
Definition inlined_states (d : dfa trans) : list nat :=
  map fst (filter (inlined_pred d) (combine (seq 0 (length d)) d)).

(* CgCtx::renumber_state: subtract the number of inlined states below (binary search Ok|Err) *)
Definition renumber (inl : list nat) (s : nat) : nat := s - length (filter (fun e => e <? s) inl).

(* generate_state_arms: one arm per state that is not inlined; the pattern is `_` for the
   renumbered index n_states - n_inlined - 1, the number otherwise *)
Definition arms (d : dfa trans) : list (option nat * nat) :=
  let inl := inlined_states d in
  let last := length d - length inl - 1 in
  flat_map (fun p =>
              if inlined_pred d p then []
              else let k := renumber inl (fst p) in
                   [(if k =? last then None else Some k, fst p)])
           (combine (seq 0 (length d)) d).

(* `match self.0.__state { arms }`: first arm whose pattern matches *)
Fixpoint arm_lookup (a : list (option nat * nat)) (state : nat) : option nat :=
  match a with
  | [] => None
  | (None, s) :: _ => Some s
  | (Some k, s) :: t => if k =? state then Some s else arm_lookup t state
  end.

(* generate_switch: rule set name -> value stored into __state / __initial_state *)
Definition switch_table (inl : list nat) (entries : list (name * nat)) : list (name * nat) :=
  map (fun e => (fst e, renumber inl (snd e))) entries.

Record program := mkProgram {
  p_states : dfa trans;                  (* simplified DFA *)
  p_inlined : list nat;
  p_arms : list (option nat * nat);
  p_switch : list (name * nat);          (* in declaration order of the rule sets *)
  p_ctxs : list (dfa nat);               (* right-context DFAs, by RightCtxIdx *)
  p_max_guard : nat                      (* MAX_GUARD_SIZE *)
}.

(* ---------- character tests of one state, in the order of the generated match arms ---------- *)

(* range_chars: a piece of a range map as a range of chars. Pieces can start or end at a surrogate
   code point; they are shrunk to the chars they contain, or dropped (None). *)
Definition in_surrogates (c : N) : bool := (SURR_LO <=? c)%N && (c <=? SURR_HI)%N.
Definition range_chars (lo hi : N) : option (N * N) :=
  let lo' := if in_surrogates lo then (SURR_HI + 1)%N else lo in
  let hi' := if in_surrogates hi then (SURR_LO - 1)%N else hi in
  if (hi' <? lo')%N then None
  else if (CHAR_MAX <? lo')%N || (CHAR_MAX <? hi')%N then None     (* char::from_u32(..)? *)
  else Some (lo', hi').

(* ranges that lead to the same state are tested together: guard chain or search table *)
Definition group_ranges (rs : rmap trans) : list (nat * pairs) :=
  fold_left (fun acc r =>
               match range_chars (r_lo r) (r_hi r), r_val r with
               | Some p, TGoto t =>
                   match assoc_nat t acc with
                   | Some l => assoc_nat_set t (l ++ [p]) acc
                   | None => acc ++ [(t, [p])]
                   end
               | _, _ => acc
               end) rs [].

Definition accept_ranges (rs : rmap trans) : list (pairs * list accval) :=
  flat_map (fun r => match range_chars (r_lo r) (r_hi r), r_val r with
                     | Some p, TAccept a => [([p], a)]
                     | _, _ => [] end) rs.

(* result of looking a character up in a state: which transition the generated `match char`
   selects. Char arms come first, then accepting ranges, then grouped ranges, then default. *)
Definition find_range_trans (max_guard : nat) (rs : rmap trans) (c : N) : option trans :=
  match find (fun g => guard_chain (fst g) c) (accept_ranges rs) with
  | Some g => Some (TAccept (snd g))
  | None =>
      match find (fun g => compiled_member max_guard (snd g) c) (group_ranges rs) with
      | Some g => Some (TGoto (fst g))
      | None => None
      end
  end.

Definition lookup_char (max_guard : nat) (st : dstate trans) (c : N) : option trans :=
  match assoc_N c (d_chars st) with
  | Some t => Some t
  | None => find_range_trans max_guard (d_ranges st) c
  end.

Definition make_program (max_guard : nat) (d : dfa trans) (entries : list (name * nat))
           (ctxs : list (dfa nat)) : result program :=
  let inl := inlined_states d in
  Ok (mkProgram d inl (arms d) (switch_table inl entries) ctxs max_guard).

(* ---------- right-context functions (generate_right_ctx_fns) ---------- *)
(* `fn L_RIGHT_CTX_i(mut input) -> bool`: runs the (unsimplified) context DFA from state 0 and
   returns true as soon as an accepting state is entered. Arms are 0, 1, .., n-2, `_`. *)

Definition ctx_lookup_char (max_guard : nat) (st : dstate nat) (c : N) : option nat :=
  match assoc_N c (d_chars st) with
  | Some t => Some t
  | None =>
      let groups :=
        fold_left (fun acc r =>
                     match range_chars (r_lo r) (r_hi r) with
                     | None => acc
                     | Some p =>
                         match assoc_nat (r_val r) acc with
                         | Some l => assoc_nat_set (r_val r) (l ++ [p]) acc
                         | None => acc ++ [(r_val r, [p])]
                         end
                     end) (d_ranges st) [] in
      match find (fun g => compiled_member max_guard (snd g) c) groups with
      | Some g => Some (fst g)
      | None => d_any st
      end
  end.

(* after the input is exhausted `input.next()` keeps returning None: follow end-of-input
   transitions (at most one per state in a well-formed context) *)
Fixpoint ctx_eoi_chain (fuel : nat) (d : dfa nat) (state : nat) : bool :=
  let st := dget d (Nat.min state (length d - 1)) in
  if is_accepting st then true
  else match fuel with
       | O => false           (* a cycle of `$` transitions: the Rust loops; excluded by wf *)
       | S f => match d_eoi st with Some next => ctx_eoi_chain f d next | None => false end
       end.

Fixpoint ctx_run (max_guard : nat) (d : dfa nat) (state : nat) (input : list N) : bool :=
  (* arm selection: states >= n-1 all take the `_` arm, i.e. the last state *)
  let st := dget d (Nat.min state (length d - 1)) in
  if is_accepting st then true
  else
    match input with
    | [] => ctx_eoi_chain (length d) d state
    | c :: rest =>
        match ctx_lookup_char max_guard st c with
        | Some next => ctx_run max_guard d next rest
        | None => false
        end
    end.
