(* Invariants of the REFERENCE semantics (LexSpec.spec_step / spec_next), valid for ALL rule
   sets (closed or not), inputs and action functions.

   A. Locations (C06): every location held in a reference state or emitted in an item is the
      location of a prefix of the input; the match text is the input slice between the match
      start and the position; items appear in input order and never overlap.
   B. Progress (C09): every step that produces an item or continues consumes at least one
      character or marks the stream ended; hence at most |input|+1 items and at most
      |input|+1 invocations of semantic actions (counting instrumentation). *)
From Coq Require Import List Arith NArith Bool Lia.
From LexVerif Require Import Base CharClass Regex Spec SpecExec LexSpec RuntimeLemmas RuntimeProofs
  LexSpecFacts.
Import ListNotations.

Local Arguments s_rest {U}. Local Arguments s_rs {U}. Local Arguments s_user {U}.
Local Arguments s_mstart {U}. Local Arguments s_pos {U}. Local Arguments s_mtext {U}.
Local Arguments s_ended {U}. Local Arguments mkS {U}.
Local Arguments SItem {T E U}. Local Arguments SCont {T E U}. Local Arguments SEnd {T E U}.
Local Arguments succ_state {T E U}.

(* ==================================================================================== *)
(* 0. list helpers                                                                       *)
(* ==================================================================================== *)

Lemma firstn_app_le {A} : forall k (a b : list A), k <= length a -> firstn k (a ++ b) = firstn k a.
Proof.
  intros k a b H. rewrite firstn_app. replace (k - length a) with 0 by lia.
  cbn. apply app_nil_r.
Qed.

Lemma skipn_app_le {A} : forall k (a b : list A), k <= length a -> skipn k (a ++ b) = skipn k a ++ b.
Proof.
  intros k a b H. rewrite skipn_app. replace (k - length a) with 0 by lia. reflexivity.
Qed.

Lemma firstn_length_app {A} : forall (a b : list A), firstn (length a) (a ++ b) = a.
Proof.
  intros a b. rewrite firstn_app, Nat.sub_diag, firstn_all. cbn. apply app_nil_r.
Qed.

Lemma skipn_length_app {A} : forall (a b : list A), skipn (length a) (a ++ b) = b.
Proof.
  intros a b. rewrite skipn_app, Nat.sub_diag, skipn_all. reflexivity.
Qed.

(* ==================================================================================== *)
(* 1. shape of the selected match, for arbitrary (not necessarily closed) rules          *)
(* ==================================================================================== *)
Section Shape.
Variable benv : builtin_env.

Lemma here_plain_shape : forall k0 (a b : bool) k e,
  (if negb (Nat.eqb k0 0) && a && b then Some (k0, false) else None) = Some (k, e) ->
  k = k0 /\ e = false /\ 1 <= k0.
Proof.
  intros k0 a b k e H. destruct (Nat.eqb_spec k0 0) as [E0|E0]; cbn in H; [discriminate|].
  destruct (a && b); [|discriminate]. inversion H; subst. repeat split. lia.
Qed.

Lemma rule_best_shape : forall ctx w d k0 k e,
  rule_best benv ctx d k0 w = Some (k, e) ->
  k0 <= k /\ k <= k0 + length w /\ (if e then k = k0 + length w else 1 <= k).
Proof.
  intros ctx. induction w as [|c w IH]; intros d k0 k e H; cbn [rule_best] in H; cbv zeta in H.
  - destruct (nullable (deriv benv Eoi d) && ctx_ok benv ctx []).
    + inversion H; subst. cbn. lia.
    + apply here_plain_shape in H as (-> & -> & H1). cbn. lia.
  - destruct (rule_best benv ctx (deriv benv (Chr c) d) (S k0) w) as [m|] eqn:Er.
    + inversion H; subst m. apply IH in Er. cbn [length]. destruct e; lia.
    + apply here_plain_shape in H as (-> & -> & H1). cbn [length]. lia.
Qed.

Definition ke_shape (n : nat) (m : nat * bool) : Prop :=
  fst m <= n /\ (if snd m then fst m = n else 1 <= fst m).

Lemma select_go_shape : forall rules w best,
  (forall r m, best = Some (r, m) -> ke_shape (length w) m) ->
  forall r m, select_go benv rules w best = Some (r, m) -> ke_shape (length w) m.
Proof.
  induction rules as [|r0 rules IH]; intros w best Hb r m H; cbn [select_go] in H.
  - eapply Hb; exact H.
  - cbv zeta in H. eapply IH; [|exact H]. clear H. intros r1 m1 H1.
    destruct (rule_best benv (cr_ctx r0) (of_regex benv (cr_re r0)) 0 w) as [[k e]|] eqn:Er.
    + assert (S0 : ke_shape (length w) (k, e)).
      { apply rule_best_shape in Er. unfold ke_shape; cbn [fst snd]. destruct e; lia. }
      destruct best as [[rb mb]|].
      * destruct (better (k, e) mb).
        -- inversion H1; subst. exact S0.
        -- eapply Hb; exact H1.
      * inversion H1; subst. exact S0.
    + eapply Hb; exact H1.
Qed.

(* the selected match has at most |w| characters; a match through end-of-input covers all of
   w, a plain match is not empty.  No closedness needed. *)
Theorem select_shape : forall rules w r k e,
  select benv rules w = Some (r, (k, e)) ->
  k <= length w /\ (if e then k = length w else 1 <= k).
Proof.
  intros rules w r k e H. unfold select in H.
  apply (select_go_shape rules w None) in H; [exact H|]. intros; discriminate.
Qed.

End Shape.

(* ==================================================================================== *)
(* 2. invariants of spec_step / spec_next                                                *)
(* ==================================================================================== *)
Section Inv.
Variable benv : builtin_env.
Variable width : N -> N.
Variable tab_width : N.
Variables T E U : Type.
Variable rss : list (list crule).
Variable actions : nat -> action T E U.

Local Notation adv_all := (advance_all width tab_width).
Local Notation loc_of := (loc_of_prefix width tab_width).
Local Notation sstep := (spec_step benv width tab_width T E U rss actions).
Local Notation snext := (spec_next benv width tab_width T E U rss actions).
Local Notation srun := (spec_run benv width tab_width T E U rss actions).

(* ------------------------------------------------------------------------------------ *)
(* A. Locations                                                                          *)
(* ------------------------------------------------------------------------------------ *)

Definition loc_inv (whole : list N) (s : sstate U) : Prop :=
  exists consumed k,
    whole = consumed ++ s_rest s /\
    s_pos s = loc_of consumed /\
    k <= length consumed /\
    s_mstart s = loc_of (firstn k consumed) /\
    s_mtext s = skipn k consumed.

Theorem loc_inv_init : forall whole u, loc_inv whole (s_init U whole u).
Proof.
  intros whole u. exists [], 0. cbn. repeat split. lia.
Qed.

(* the same invariant, stated with indices into the whole input *)
Theorem loc_inv_indices : forall whole s, loc_inv whole s ->
  exists a b, a <= b /\ b <= length whole /\
    s_rest s = skipn b whole /\
    s_pos s = loc_of (firstn b whole) /\
    s_mstart s = loc_of (firstn a whole) /\
    s_mtext s = firstn (b - a) (skipn a whole).
Proof.
  intros whole s (c & k & Hw & Hp & Hk & Hm & Ht). exists k, (length c).
  split; [exact Hk|]. split; [rewrite Hw, app_length; lia|].
  rewrite Hw. rewrite skipn_length_app, firstn_length_app, (firstn_app_le k c _ Hk).
  repeat split; try assumption.
  rewrite (skipn_app_le k c _ Hk), Ht.
  rewrite firstn_app_le by (rewrite skipn_length; lia).
  symmetry. replace (length c - k) with (length (skipn k c)) by (rewrite skipn_length; lia).
  apply firstn_all.
Qed.

(* the position is the match start advanced over the match text *)
Lemma loc_inv_pos_mtext : forall whole s, loc_inv whole s ->
  s_pos s = adv_all (s_mstart s) (s_mtext s).
Proof.
  intros whole s (c & k & Hw & Hp & Hk & Hm & Ht).
  rewrite Hp, Hm, Ht, <- RuntimeLemmas.loc_of_prefix_app, firstn_skipn. reflexivity.
Qed.

Lemma loc_inv_mstart_le_pos : forall whole s, loc_inv whole s ->
  (byte_idx (s_mstart s) <= byte_idx (s_pos s))%N.
Proof.
  intros whole s H. rewrite (loc_inv_pos_mtext whole s H).
  apply RuntimeLemmas.advance_all_loc_le.
Qed.

(* consuming n more characters (n may exceed what is left): the shape of all successor
   states of spec_step *)
Lemma loc_inv_advance : forall whole s n rs' (u' : U) ended' (reset : bool),
  loc_inv whole s ->
  loc_inv whole
    (mkS (skipn n (s_rest s)) rs' u'
         (if reset then adv_all (s_pos s) (firstn n (s_rest s)) else s_mstart s)
         (adv_all (s_pos s) (firstn n (s_rest s)))
         (if reset then [] else s_mtext s ++ firstn n (s_rest s))
         ended').
Proof.
  intros whole s n rs' u' ended' reset (c & k & Hw & Hp & Hk & Hm & Ht).
  set (p := firstn n (s_rest s)).
  assert (Hpos : adv_all (s_pos s) p = loc_of (c ++ p)).
  { rewrite Hp. symmetry. apply RuntimeLemmas.loc_of_prefix_app. }
  exists (c ++ p), (if reset then length (c ++ p) else k).
  cbn [s_rest s_pos s_mstart s_mtext].
  split. { rewrite <- app_assoc. unfold p. rewrite firstn_skipn. exact Hw. }
  split. { exact Hpos. }
  destruct reset.
  - split; [lia|]. rewrite firstn_all, skipn_all. split; [exact Hpos|reflexivity].
  - split; [rewrite app_length; lia|].
    rewrite (firstn_app_le k c p Hk), (skipn_app_le k c p Hk), Ht. split; [exact Hm|reflexivity].
Qed.

Lemma loc_inv_fields : forall whole s s',
  s_rest s' = s_rest s -> s_pos s' = s_pos s -> s_mstart s' = s_mstart s ->
  s_mtext s' = s_mtext s -> loc_inv whole s -> loc_inv whole s'.
Proof.
  intros whole s s' H1 H2 H3 H4 (c & k & H). exists c, k. rewrite H1, H2, H3, H4. exact H.
Qed.

Theorem loc_inv_step : forall whole s,
  loc_inv whole s ->
  match sstep s with
  | SItem _ s' | SCont s' | SEnd s' => loc_inv whole s'
  end.
Proof.
  intros whole s H. unfold spec_step.
  destruct (s_ended s); [exact H|].
  destruct (select benv (nth (s_rs s) rss []) (s_rest s)) as [[r [k e]]|].
  - cbv zeta.
    match goal with |- context [actions (cr_act r) ?v (s_user s)] =>
      set (o := actions (cr_act r) v (s_user s)) end.
    destruct (a_res o) as [|[t|x]].
    + apply (loc_inv_advance whole s k _ _ _ (a_reset o) H).
    + apply (loc_inv_advance whole s k _ _ _ true H).
    + apply (loc_inv_advance whole s k _ _ _ true H).
  - destruct (s_rest s) as [|c w] eqn:Ew.
    + destruct (s_rs s =? 0).
      * eapply loc_inv_fields; [| | | |exact H]; cbn; congruence.
      * pose proof (loc_inv_advance whole s 0 0 (s_user s) true true H) as H0.
        rewrite Ew in H0. exact H0.
    + destruct (viable benv (nth (s_rs s) rss []) (c :: w)) as [kv ext].
      rewrite <- Ew. cbv zeta.
      apply (loc_inv_advance whole s _ _ _ _ true H).
Qed.

Lemma loc_inv_succ : forall whole s, loc_inv whole s -> loc_inv whole (succ_state (sstep s)).
Proof.
  intros whole s H. pose proof (loc_inv_step whole s H) as H1.
  destruct (sstep s); exact H1.
Qed.

Theorem loc_inv_next : forall f whole s oi s',
  loc_inv whole s -> snext f s = Some (oi, s') -> loc_inv whole s'.
Proof.
  induction f as [|f IH]; intros whole s oi s' Hi H; [discriminate|]. cbn [spec_next] in H.
  pose proof (loc_inv_step whole s Hi) as H1.
  destruct (sstep s) as [i s1|s1|s1].
  - inversion H; subst. exact H1.
  - eapply IH; eauto.
  - inversion H; subst. exact H1.
Qed.

(* ---------- locations of items ---------- *)

(* every location of an item is the location of a prefix of the input; start <= end *)
Definition item_loc_ok (whole : list N) (i : item T E) : Prop :=
  match i with
  | ITok st t en =>
      exists a b, a <= b /\ b <= length whole /\
        st = loc_of (firstn a whole) /\ en = loc_of (firstn b whole)
  | IInvalid l | ICustom _ l =>
      exists a, a <= length whole /\ l = loc_of (firstn a whole)
  end.

(* the view handed to a semantic action: its text is the input slice [a, b), its locations
   are the locations of the prefixes of length a and b, peek is the character at b *)
Definition view_ok (whole : list N) (v : view) : Prop :=
  exists a b, a <= b /\ b <= length whole /\
    v_start v = loc_of (firstn a whole) /\ v_end v = loc_of (firstn b whole) /\
    v_text v = firstn (b - a) (skipn a whole) /\ v_peek v = nth_error whole b.

Lemma hd_error_skipn {A} : forall n (l : list A), hd_error (skipn n l) = nth_error l n.
Proof.
  induction n as [|n IH]; intros [|x l]; cbn; auto.
Qed.

Theorem view_locs : forall whole s n,
  loc_inv whole s ->
  view_ok whole (mkView (s_mtext s ++ firstn n (s_rest s)) (s_mstart s)
                        (adv_all (s_pos s) (firstn n (s_rest s)))
                        (hd_error (skipn n (s_rest s)))).
Proof.
  intros whole s n H.
  pose proof (loc_inv_advance whole s n 0 (s_user s) false false H) as H1.
  apply loc_inv_indices in H1. cbn [s_rest s_pos s_mstart s_mtext] in H1.
  destruct H1 as (a & b & Hab & Hb & Hr & Hp & Hm & Ht).
  exists a, b. cbn [v_text v_start v_end v_peek]. repeat split; try assumption.
  rewrite Hr. apply hd_error_skipn.
Qed.

Theorem item_locs : forall whole s i s',
  loc_inv whole s -> sstep s = SItem i s' -> item_loc_ok whole i.
Proof.
  intros whole s i s' Hi H.
  pose proof (loc_inv_indices whole s Hi) as (a0 & b0 & Hab0 & Hb0 & _ & Hp0 & Hm0 & _).
  pose proof (loc_inv_step whole s Hi) as Hs'. rewrite H in Hs'.
  pose proof (loc_inv_indices whole s' Hs') as (a1 & b1 & Hab1 & Hb1 & _ & Hp1 & Hm1 & _).
  unfold spec_step in H. destruct (s_ended s); [discriminate|].
  destruct (select benv (nth (s_rs s) rss []) (s_rest s)) as [[r [k e]]|].
  - cbv zeta in H.
    match type of H with context [actions (cr_act r) ?v (s_user s)] =>
      set (o := actions (cr_act r) v (s_user s)) in H end.
    destruct (a_res o) as [|[t|x]]; [discriminate| |]; inversion H; subst i s'; clear H;
      cbn [s_pos s_mstart] in *.
    + (* token *)
      destruct (a_reset o).
      * exists b1, b1. repeat split; try assumption. lia.
      * (* a0 <= b1: the position does not move backwards *)
        assert (Hle : (byte_idx (s_pos s) <= byte_idx (loc_of (firstn b1 whole)))%N).
        { rewrite <- Hp1. apply RuntimeLemmas.advance_all_loc_le. }
        destruct (le_lt_dec a0 b1) as [L|L].
        -- exists a0, b1. repeat split; assumption.
        -- (* then b1 < a0 <= b0, impossible unless the locations coincide; use b0 *)
           exfalso.
           rewrite Hp0, !RuntimeLemmas.loc_of_prefix_byte_idx in Hle.
           assert (Hlt : (utf8_size (firstn b1 whole) < utf8_size (firstn b0 whole))%N).
           { rewrite <- (firstn_skipn b1 (firstn b0 whole)).
             rewrite firstn_firstn, Nat.min_l by lia.
             rewrite utf8_size_app.
             destruct (skipn b1 (firstn b0 whole)) as [|c q] eqn:Eq.
             - apply (f_equal (@length N)) in Eq. rewrite skipn_length, firstn_length in Eq.
               cbn in Eq. lia.
             - cbn [utf8_size fold_right]. pose proof (utf8_len_bounds c). lia. }
           lia.
    + (* custom error *)
      destruct (a_reset o).
      * exists b1. split; assumption.
      * exists a0. split; [lia|assumption].
  - destruct (s_rest s) as [|c w] eqn:Ew.
    + destruct (s_rs s =? 0); [discriminate|]. inversion H; subst i s'.
      exists a0. split; [lia|assumption].
    + destruct (viable benv (nth (s_rs s) rss []) (c :: w)) as [kv ext].
      inversion H; subst i s'. exists a0. split; [lia|assumption].
Qed.

(* a token is returned by an action that was handed a view satisfying view_ok: the token's
   text (match_()) is the input slice between the view's locations, the token ends at the
   view's end and starts at the view's start (or at its end after reset_match) *)
Theorem token_view : forall whole s st t en s',
  loc_inv whole s -> sstep s = SItem (ITok st t en) s' ->
  exists r k e v,
    select benv (nth (s_rs s) rss []) (s_rest s) = Some (r, (k, e)) /\
    view_ok whole v /\
    a_res (actions (cr_act r) v (s_user s)) = AReturn (inl t) /\
    en = v_end v /\
    st = (if a_reset (actions (cr_act r) v (s_user s)) then v_end v else v_start v).
Proof.
  intros whole s st t en s' Hi H.
  destruct (spec_token benv width tab_width T E U rss actions s st t en s' H)
    as (r & k & e & Hs & Hx). cbv zeta in Hx. destruct Hx as (Hr & Hen & Hst & _).
  exists r, k, e. eexists. split; [exact Hs|]. split; [apply (view_locs whole s k Hi)|].
  split; [exact Hr|]. split; [exact Hen|exact Hst].
Qed.

Theorem next_item_locs : forall f whole s i s',
  loc_inv whole s -> snext f s = Some (Some i, s') -> item_loc_ok whole i.
Proof.
  induction f as [|f IH]; intros whole s i s' Hi H; [discriminate|]. cbn [spec_next] in H.
  pose proof (loc_inv_step whole s Hi) as H1.
  destruct (sstep s) as [i1 s1|s1|s1] eqn:Es.
  - inversion H; subst i1 s1. eapply item_locs; [exact Hi|exact Es].
  - eapply IH; eauto.
  - discriminate.
Qed.

Theorem spec_run_item_locs : forall whole n s r,
  loc_inv whole s -> srun n s r -> forall i, In (Some i) r -> item_loc_ok whole i.
Proof.
  intros whole n s r Hi Hr. induction Hr as [|n s f oi s' r Hn Hr IH]; intros i Hin; [destruct Hin|].
  destruct Hin as [->|Hin].
  - eapply next_item_locs; eauto.
  - apply IH; [|exact Hin]. eapply loc_inv_next; eauto.
Qed.

(* ---------- order of items ---------- *)

Definition item_start (i : item T E) : Loc :=
  match i with ITok st _ _ => st | IInvalid l => l | ICustom _ l => l end.
Definition item_end (i : item T E) : Loc :=
  match i with ITok _ _ en => en | IInvalid l => l | ICustom _ l => l end.

Notation "a <=b b" := (byte_idx a <= byte_idx b)%N (at level 70).

(* one step: the match start never moves backwards; an item lies between the old and the new
   match start *)
Lemma step_order : forall whole s,
  loc_inv whole s ->
  match sstep s with
  | SItem i s' =>
      s_mstart s <=b item_start i /\ item_start i <=b item_end i /\
      item_end i <=b s_mstart s' /\ s_mstart s' = s_pos s' /\ s_pos s <=b s_pos s'
  | SCont s' => s_mstart s <=b s_mstart s'
  | SEnd s' => s_mstart s' = s_mstart s
  end.
Proof.
  intros whole s Hi. pose proof (loc_inv_mstart_le_pos whole s Hi) as Hmp.
  unfold spec_step. destruct (s_ended s); [reflexivity|].
  destruct (select benv (nth (s_rs s) rss []) (s_rest s)) as [[r [k e]]|].
  - cbv zeta.
    match goal with |- context [actions (cr_act r) ?v (s_user s)] =>
      set (o := actions (cr_act r) v (s_user s)) end.
    pose proof (RuntimeLemmas.advance_all_loc_le width tab_width (s_pos s) (firstn k (s_rest s))) as Hadv.
    unfold loc_le in Hadv.
    destruct (a_res o) as [|[t|x]]; cbn [item_start item_end s_mstart s_pos];
      destruct (a_reset o); repeat split; lia.
  - destruct (s_rest s) as [|c w] eqn:Ew.
    + destruct (s_rs s =? 0); cbn [item_start item_end s_mstart s_pos]; repeat split; lia.
    + destruct (viable benv (nth (s_rs s) rss []) (c :: w)) as [kv ext].
      cbn [item_start item_end s_mstart s_pos].
      match goal with |- context [adv_all (s_pos s) ?p] =>
        pose proof (RuntimeLemmas.advance_all_loc_le width tab_width (s_pos s) p) as Hadv end.
      unfold loc_le in Hadv. repeat split; lia.
Qed.

(* successive tokens never overlap and appear in input order *)
Theorem item_after_pos : forall whole s st t en s',
  loc_inv whole s -> sstep s = SItem (ITok st t en) s' ->
  s_mstart s <=b st /\ st <=b en /\ en = s_pos s' /\ en = s_mstart s' /\ s_pos s <=b en.
Proof.
  intros whole s st t en s' Hi H.
  pose proof (step_order whole s Hi) as Ho. rewrite H in Ho. cbn [item_start item_end] in Ho.
  destruct Ho as (H1 & H2 & H3 & H4 & H5).
  assert (Een : en = s_pos s').
  { destruct (spec_token benv width tab_width T E U rss actions s st t en s' H)
      as (r & k & e & _ & Hx). cbv zeta in Hx. destruct Hx as (_ & -> & _ & _ & _ & -> & _).
    reflexivity. }
  repeat split; try assumption; congruence.
Qed.

Theorem next_order : forall f whole s oi s',
  loc_inv whole s -> snext f s = Some (oi, s') ->
  match oi with
  | Some i => s_mstart s <=b item_start i /\ item_start i <=b item_end i /\
              item_end i <=b s_mstart s'
  | None => s_mstart s <=b s_mstart s'
  end.
Proof.
  induction f as [|f IH]; intros whole s oi s' Hi H; [discriminate|]. cbn [spec_next] in H.
  pose proof (loc_inv_step whole s Hi) as H1. pose proof (step_order whole s Hi) as H2.
  destruct (sstep s) as [i1 s1|s1|s1].
  - inversion H; subst. tauto.
  - specialize (IH whole s1 oi s' H1 H). destruct oi as [i|]; [|lia].
    destruct IH as (A & B & C). repeat split; try assumption. lia.
  - inversion H; subst. rewrite H2. lia.
Qed.

(* a whole stream of results is ordered: every item starts at or after the end of the item
   before it (and at or after the initial match start) *)
Fixpoint ordered_from (lo : N) (r : list (option (item T E))) : Prop :=
  match r with
  | [] => True
  | None :: r' => ordered_from lo r'
  | Some i :: r' =>
      (lo <= byte_idx (item_start i))%N /\ item_start i <=b item_end i /\
      ordered_from (byte_idx (item_end i)) r'
  end.

Lemma ordered_from_mono : forall r lo lo', (lo' <= lo)%N -> ordered_from lo r -> ordered_from lo' r.
Proof.
  induction r as [|[i|] r IH]; intros lo lo' Hl H; cbn [ordered_from] in *; auto.
  - destruct H as (A & B & C). repeat split; try assumption. lia.
  - eapply IH; eauto.
Qed.

Theorem spec_run_ordered : forall whole n s r,
  loc_inv whole s -> srun n s r -> ordered_from (byte_idx (s_mstart s)) r.
Proof.
  intros whole n s r Hi Hr. induction Hr as [|n s f oi s' r Hn Hr IH]; [exact I|].
  pose proof (next_order f whole s oi s' Hi Hn) as Ho.
  specialize (IH (loc_inv_next f whole s oi s' Hi Hn)).
  destruct oi as [i|]; cbn [ordered_from].
  - destruct Ho as (A & B & C). repeat split; try assumption.
    eapply ordered_from_mono; eauto.
  - eapply ordered_from_mono; eauto.
Qed.

(* ------------------------------------------------------------------------------------ *)
(* B. Progress                                                                           *)
(* ------------------------------------------------------------------------------------ *)

(* what is left to do: 0 once ended, else the unread characters plus the end-of-input *)
Definition fuel_left (s : sstate U) : nat :=
  if s_ended s then 0 else S (length (s_rest s)).

(* master lemma: progress, and the user state changes only by one action invocation *)
Lemma spec_step_user_progress : forall s,
  s_ended s = false ->
  match sstep s with
  | SItem _ s' | SCont s' =>
      (length (s_rest s') < length (s_rest s) \/
       (s_ended s' = true /\ length (s_rest s') <= length (s_rest s))) /\
      (s_user s' = s_user s \/
       exists a v, s_user s' = a_user (actions a v (s_user s)) /\
                   select benv (nth (s_rs s) rss []) (s_rest s) <> None)
  | SEnd s' => s_ended s' = true /\ s_user s' = s_user s
  end.
Proof.
  intros s He. unfold spec_step. rewrite He.
  destruct (select benv (nth (s_rs s) rss []) (s_rest s)) as [[r [k e]]|] eqn:Es.
  - cbv zeta. apply select_shape in Es as [Hk Hke].
    match goal with |- context [actions (cr_act r) ?v (s_user s)] =>
      set (vv := v); set (o := actions (cr_act r) vv (s_user s)) end.
    assert (P : length (skipn k (s_rest s)) < length (s_rest s) \/
                (e = true /\ length (skipn k (s_rest s)) <= length (s_rest s))).
    { rewrite skipn_length. destruct e; [right; split; [reflexivity|lia] | left; lia]. }
    assert (Q : exists a v, a_user o = a_user (actions a v (s_user s)) /\
                            Some (r, (k, e)) <> (None : option (crule * (nat * bool)))).
    { exists (cr_act r), vv. split; [reflexivity|discriminate]. }
    destruct (a_res o) as [|[t|x]]; cbn [s_rest s_ended s_user]; (split; [exact P|right; exact Q]).
  - destruct (s_rest s) as [|c w] eqn:Ew.
    + destruct (s_rs s =? 0); cbn [s_rest s_ended s_user].
      * split; reflexivity.
      * split; [right; split; [reflexivity|lia] | left; reflexivity].
    + destruct (viable benv (nth (s_rs s) rss []) (c :: w)) as [kv ext].
      cbn [s_rest s_ended s_user]. split; [|left; reflexivity].
      left. rewrite skipn_length. cbn [length].
      destruct (kv =? 0) eqn:Ek; cbn [orb].
      * lia.
      * apply Nat.eqb_neq in Ek. destruct ext; lia.
Qed.

(* a step that produces an item or continues either consumes at least one character or marks
   the stream ended *)
Theorem spec_step_progress : forall s,
  s_ended s = false ->
  match sstep s with
  | SItem _ s' | SCont s' =>
      length (s_rest s') < length (s_rest s) \/
      (s_ended s' = true /\ length (s_rest s') <= length (s_rest s))
  | SEnd s' => s_ended s' = true
  end.
Proof.
  intros s He. pose proof (spec_step_user_progress s He) as H.
  destruct (sstep s); tauto.
Qed.

Lemma step_fuel : forall s,
  match sstep s with
  | SItem _ s' | SCont s' => fuel_left s' < fuel_left s
  | SEnd s' => fuel_left s' = 0
  end.
Proof.
  intro s. destruct (s_ended s) eqn:He.
  - rewrite (spec_step_ended width tab_width T E U actions benv rss s He).
    unfold fuel_left. rewrite He. reflexivity.
  - pose proof (spec_step_progress s He) as H. unfold fuel_left. rewrite He.
    destruct (sstep s) as [i s'|s'|s'].
    + destruct H as [H|[H1 H2]]; [destruct (s_ended s'); lia | rewrite H1; lia].
    + destruct H as [H|[H1 H2]]; [destruct (s_ended s'); lia | rewrite H1; lia].
    + rewrite H. reflexivity.
Qed.

Lemma next_fuel : forall f s oi s', snext f s = Some (oi, s') ->
  match oi with
  | Some _ => fuel_left s' < fuel_left s
  | None => fuel_left s' = 0
  end.
Proof.
  induction f as [|f IH]; intros s oi s' H; [discriminate|]. cbn [spec_next] in H.
  pose proof (step_fuel s) as Hs.
  destruct (sstep s) as [i s1|s1|s1].
  - inversion H; subst. exact Hs.
  - specialize (IH s1 oi s' H). destruct oi; lia.
  - inversion H; subst. exact Hs.
Qed.

Definition is_item (o : option (item T E)) : bool :=
  match o with Some _ => true | None => false end.

Lemma spec_run_items_fuel : forall n s r, srun n s r ->
  length (filter is_item r) <= fuel_left s.
Proof.
  intros n s r Hr. induction Hr as [|n s f oi s' r Hn Hr IH]; [cbn; lia|].
  pose proof (next_fuel f s oi s' Hn) as Hf.
  destruct oi; cbn [filter is_item length]; lia.
Qed.

(* in any run of spec_next the number of items is at most the number of unread characters
   plus one *)
Theorem spec_run_items_bound : forall n s r, srun n s r ->
  length (filter (fun o => match o with Some _ => true | None => false end) r)
    <= length (s_rest s) + 1.
Proof.
  intros n s r Hr. pose proof (spec_run_items_fuel n s r Hr) as H.
  fold is_item. unfold fuel_left in H. destruct (s_ended s); lia.
Qed.

(* after a None the stream stays ended: all later results are None *)
Theorem spec_run_none_forever : forall n s r, srun n s r -> s_ended s = true ->
  forall o, In o r -> o = None.
Proof.
  intros n s r Hr. induction Hr as [|n s f oi s' r Hn Hr IH]; intros He o Hin; [destruct Hin|].
  destruct f as [|f]; [discriminate|].
  rewrite (spec_ended width tab_width T E U actions benv rss f s He) in Hn.
  inversion Hn; subst oi s'. destruct Hin as [<-|Hin]; [reflexivity|]. apply IH; assumption.
Qed.

(* ---------- runs that expose the final state ---------- *)

Inductive spec_run_st : nat -> sstate U -> list (option (item T E)) -> sstate U -> Prop :=
| SRT0 : forall s, spec_run_st 0 s [] s
| SRTS : forall n s f oi s1 r s',
    snext f s = Some (oi, s1) -> spec_run_st n s1 r s' -> spec_run_st (S n) s (oi :: r) s'.

Lemma spec_run_st_run : forall n s r,
  srun n s r <-> exists s', spec_run_st n s r s'.
Proof.
  intros n s r. split.
  - intro H. induction H as [|n s f oi s1 r Hn Hr [s' IH]].
    + exists s. constructor.
    + exists s'. econstructor; eauto.
  - intros [s' H]. induction H; econstructor; eauto.
Qed.

Theorem loc_inv_run : forall whole n s r s',
  loc_inv whole s -> spec_run_st n s r s' -> loc_inv whole s'.
Proof.
  intros whole n s r s' Hi H. induction H as [|n s f oi s1 r s' Hn Hr IH]; [exact Hi|].
  apply IH. eapply loc_inv_next; eauto.
Qed.

End Inv.

(* ==================================================================================== *)
(* 3. the number of action invocations                                                   *)
(* ==================================================================================== *)
Section Count.
Variable benv : builtin_env.
Variable width : N -> N.
Variable tab_width : N.
Variables T E U : Type.
Variable rss : list (list crule).
Variable actions : nat -> action T E U.

(* the same actions, with a counter of invocations threaded through the user state *)
Definition count_actions : nat -> action T E (nat * U) :=
  fun a v u =>
    let o := actions a v (snd u) in
    mkAOut (S (fst u), a_user o) (a_reset o) (a_switch o) (a_res o).

Local Notation cstep := (spec_step benv width tab_width T E (nat * U) rss count_actions).
Local Notation cnext := (spec_next benv width tab_width T E (nat * U) rss count_actions).
Local Notation crun := (spec_run_st benv width tab_width T E (nat * U) rss count_actions).
Local Notation sstep := (spec_step benv width tab_width T E U rss actions).
Local Notation snext := (spec_next benv width tab_width T E U rss actions).
Local Notation srun := (spec_run_st benv width tab_width T E U rss actions).

(* invocations so far + what is left to do *)
Definition potential (s : sstate (nat * U)) : nat := fst (s_user s) + fuel_left (nat * U) s.

(* each action invocation increments the counter by one and is paid by a consumed character
   or by setting ended *)
Lemma step_potential : forall s, potential (succ_state (cstep s)) <= potential s.
Proof.
  intro s. unfold potential. destruct (s_ended s) eqn:He.
  - rewrite (spec_step_ended width tab_width T E (nat * U) count_actions benv rss s He). cbn. lia.
  - pose proof (spec_step_user_progress benv width tab_width T E (nat * U) rss count_actions s He) as H.
    pose proof (step_fuel benv width tab_width T E (nat * U) rss count_actions s) as Hf.
    destruct (cstep s) as [i s'|s'|s']; cbn [succ_state].
    + destruct H as [_ [Hu|(a & v & Hu & _)]]; rewrite Hu; cbn [count_actions a_user fst]; lia.
    + destruct H as [_ [Hu|(a & v & Hu & _)]]; rewrite Hu; cbn [count_actions a_user fst]; lia.
    + destruct H as [_ Hu]. rewrite Hu, Hf. lia.
Qed.

Lemma next_potential : forall f s oi s', cnext f s = Some (oi, s') -> potential s' <= potential s.
Proof.
  induction f as [|f IH]; intros s oi s' H; [discriminate|]. cbn [spec_next] in H.
  pose proof (step_potential s) as Hp.
  destruct (cstep s) as [i s1|s1|s1]; cbn [succ_state] in Hp.
  - inversion H; subst. exact Hp.
  - apply IH in H. lia.
  - inversion H; subst. exact Hp.
Qed.

Theorem run_potential : forall n s r s', crun n s r s' -> potential s' <= potential s.
Proof.
  intros n s r s' H. induction H as [|n s f oi s1 r s' Hn Hr IH]; [lia|].
  apply next_potential in Hn. lia.
Qed.

(* in any run from the initial state the number of action invocations is at most |input|+1 *)
Theorem spec_run_actions_bound : forall whole u n r s',
  crun n (s_init (nat * U) whole (0, u)) r s' ->
  fst (s_user s') <= length whole + 1.
Proof.
  intros whole u n r s' H. apply run_potential in H. unfold potential, fuel_left in H.
  cbn [s_init s_user s_ended s_rest fst] in H. lia.
Qed.

(* also between any two states of a run: invocations in between <= characters consumed (+1
   if the run reaches the end) *)
Theorem spec_run_actions_between : forall n s r s',
  crun n s r s' ->
  fst (s_user s') + fuel_left (nat * U) s' <= fst (s_user s) + fuel_left (nat * U) s.
Proof. exact run_potential. Qed.

(* ---------- the instrumentation does not change the run ---------- *)

Definition erase (s : sstate (nat * U)) : sstate U :=
  mkS (s_rest s) (s_rs s) (snd (s_user s)) (s_mstart s) (s_pos s) (s_mtext s) (s_ended s).

Definition erase_step (x : LexSpec.sstep T E (nat * U)) : LexSpec.sstep T E U :=
  match x with
  | SItem i s => SItem i (erase s)
  | SCont s => SCont (erase s)
  | SEnd s => SEnd (erase s)
  end.

Lemma erase_init : forall whole c u, erase (s_init (nat * U) whole (c, u)) = s_init U whole u.
Proof. reflexivity. Qed.

Lemma step_erase : forall s, sstep (erase s) = erase_step (cstep s).
Proof.
  intro s. unfold spec_step. cbn [erase s_ended s_rs s_rest s_user s_mstart s_pos s_mtext].
  destruct (s_ended s) eqn:He; [cbn [erase_step]; unfold erase; rewrite He; reflexivity|].
  destruct (select benv (nth (s_rs s) rss []) (s_rest s)) as [[r [k e]]|].
  - cbv zeta. cbn [count_actions a_res a_reset a_switch a_user].
    destruct (a_res (actions (cr_act r) _ (snd (s_user s)))) as [|[t|x]]; reflexivity.
  - destruct (s_rest s) as [|c w].
    + destruct (s_rs s =? 0); reflexivity.
    + destruct (viable benv (nth (s_rs s) rss []) (c :: w)) as [kv ext]. reflexivity.
Qed.

Lemma next_erase : forall f s,
  snext f (erase s) =
  match cnext f s with Some (oi, s') => Some (oi, erase s') | None => None end.
Proof.
  induction f as [|f IH]; intro s; [reflexivity|]. cbn [spec_next]. rewrite step_erase.
  destruct (cstep s) as [i s1|s1|s1]; cbn [erase_step]; try reflexivity. apply IH.
Qed.

Theorem run_erase : forall n s r s', crun n s r s' -> srun n (erase s) r (erase s').
Proof.
  intros n s r s' H. induction H as [|n s f oi s1 r s' Hn Hr IH]; [constructor|].
  econstructor; [|exact IH]. rewrite next_erase, Hn. reflexivity.
Qed.

Theorem run_instrument : forall n t r t', srun n t r t' ->
  forall s, erase s = t -> exists s', crun n s r s' /\ erase s' = t'.
Proof.
  intros n t r t' H. induction H as [t|n t f oi t1 r t' Hn Hr IH]; intros s Es.
  - exists s. split; [constructor|exact Es].
  - subst t. rewrite next_erase in Hn. destruct (cnext f s) as [[oi1 s1]|] eqn:Ec; [|discriminate].
    inversion Hn; subst oi1 t1. destruct (IH s1 eq_refl) as (s' & Hc & Ee).
    exists s'. split; [econstructor; eauto|exact Ee].
Qed.

(* every run of the plain reference lexer is the erasure of an instrumented run with the same
   results, whose counter of action invocations is at most |input|+1 *)
Corollary spec_run_actions_bound_plain : forall whole u n r t',
  srun n (s_init U whole u) r t' ->
  exists s', crun n (s_init (nat * U) whole (0, u)) r s' /\ erase s' = t' /\
             fst (s_user s') <= length whole + 1.
Proof.
  intros whole u n r t' H.
  destruct (run_instrument n _ r t' H (s_init (nat * U) whole (0, u)) (erase_init whole 0 u))
    as (s' & Hc & Ee).
  exists s'. split; [exact Hc|]. split; [exact Ee|]. eapply spec_run_actions_bound; eauto.
Qed.

End Count.

(* ==================================================================================== *)
(* 4. tests on small examples                                                            *)
(* ==================================================================================== *)
Module Tests.

Definition w1 : N -> N := fun _ => 1%N.
Definition ra : crule := mkCRule (RChar 97) None 0.                       (* 'a'   *)
Definition rae : crule := mkCRule (RCat (RChar 97) REoi) None 1.          (* 'a' $ *)
Definition re : crule := mkCRule REoi None 2.                             (* $     *)
Definition rb_skip : crule := mkCRule (RChar 98) None 3.                  (* 'b' => continue *)

(* action 3 continues without reset, the others return their index as a token *)
Definition acts : nat -> action nat nat unit :=
  fun a v u => if Nat.eqb a 3 then mkAOut u false None AContinue
               else mkAOut u false None (AReturn (inl a)).

Fixpoint run {U} (acts : nat -> action nat nat U) (rss : list (list crule))
    (n : nat) (s : sstate U) : list (option (item nat nat)) * sstate U :=
  match n with
  | O => ([], s)
  | S n' =>
      match spec_next [] w1 4 nat nat U rss acts 100 s with
      | Some (oi, s') => let (r, s'') := run acts rss n' s' in (oi :: r, s'')
      | None => ([], s)
      end
  end.

Definition L (b : N) : Loc := mkLoc 0 b b.

(* "aa" with rules 'a', 'a' $ : two tokens, the second through end-of-input *)
Example run_aa :
  fst (run acts [[ra; rae]] 4 (s_init unit [97; 97]%N tt)) =
  [Some (ITok (L 0) 0 (L 1)); Some (ITok (L 1) 1 (L 2)); None; None].
Proof. vm_compute. reflexivity. Qed.

(* "a" with rules 'a', $ : |input|+1 = 2 items, the bound is tight *)
Example run_a_eoi :
  fst (run acts [[ra; re]] 4 (s_init unit [97]%N tt)) =
  [Some (ITok (L 0) 0 (L 1)); Some (ITok (L 1) 2 (L 1)); None; None].
Proof. vm_compute. reflexivity. Qed.

(* "bab": 'b' continues without reset, so the token 'a' starts at 0 and covers "ba"; the last
   b is matched and continues, then the stream ends silently in rule set 0 *)
Example run_bab :
  fst (run acts [[ra; rb_skip]] 4 (s_init unit [98; 97; 98]%N tt)) =
  [Some (ITok (L 0) 0 (L 2)); None; None; None].
Proof. vm_compute. reflexivity. Qed.

(* "ac": failure on c *)
Example run_ac :
  fst (run acts [[ra]] 4 (s_init unit [97; 99]%N tt)) =
  [Some (ITok (L 0) 0 (L 1)); Some (IInvalid (L 1)); None; None].
Proof. vm_compute. reflexivity. Qed.

(* the invocation counter on "a" with 'a', $ : 2 = |input|+1 invocations *)
Example count_a_eoi :
  fst (s_user (snd (run (count_actions nat nat unit acts) [[ra; re]] 4
                        (s_init (nat * unit) [97]%N (0, tt))))) = 2.
Proof. vm_compute. reflexivity. Qed.

Example count_bab :
  fst (s_user (snd (run (count_actions nat nat unit acts) [[ra; rb_skip]] 4
                        (s_init (nat * unit) [98; 97; 98]%N (0, tt))))) = 3.
Proof. vm_compute. reflexivity. Qed.

End Tests.

Print Assumptions select_shape.
Print Assumptions loc_inv_init.
Print Assumptions loc_inv_indices.
Print Assumptions loc_inv_step.
Print Assumptions loc_inv_next.
Print Assumptions loc_inv_run.
Print Assumptions view_locs.
Print Assumptions item_locs.
Print Assumptions token_view.
Print Assumptions next_item_locs.
Print Assumptions spec_run_item_locs.
Print Assumptions item_after_pos.
Print Assumptions next_order.
Print Assumptions spec_run_ordered.
Print Assumptions spec_step_progress.
Print Assumptions spec_run_items_bound.
Print Assumptions spec_run_none_forever.
Print Assumptions spec_run_st_run.
Print Assumptions spec_run_actions_bound.
Print Assumptions spec_run_actions_between.
Print Assumptions run_erase.
Print Assumptions spec_run_actions_bound_plain.
