(* Boolean checker for the subset-automaton certificate NfaSem.dfa_closed, with soundness.
   dc_step quantifies over every code point; both sides are piecewise constant between
   "breakpoints" (char keys k, k+1 and range ends lo, hi+1 of the DFA state and of the NFA
   states of its label), so the checker tests one representative per piece.  No axioms. *)
From LexVerif Require Import Base CharClass RangeMap RangeMapProofs Regex Spec Nfa Dfa NfaToDfa
     NfaSem SubsetProofs.
From Coq Require Import List NArith Arith Lia Bool Sorted Permutation Orders Mergesort.
Import ListNotations.

Arguments N.add : simpl never.
Arguments N.leb : simpl never.
Arguments N.ltb : simpl never.
Arguments N.eqb : simpl never.

(* ------------------------------------------------------------------ *)
(* boolean equalities *)

Lemma list_nat_eqb_eq : forall a b, list_nat_eqb a b = true -> a = b.
Proof.
  induction a as [|x a IH]; destruct b as [|y b]; cbn [list_nat_eqb]; intros H;
    try discriminate; [reflexivity|].
  apply andb_true_iff in H. destruct H as [H1 H2]. apply Nat.eqb_eq in H1.
  f_equal; auto.
Qed.

Lemma list_nat_eqb_refl : forall a, list_nat_eqb a a = true.
Proof. induction a; cbn [list_nat_eqb]; [reflexivity|]. rewrite Nat.eqb_refl. assumption. Qed.

Definition opt_nat_eqb (a b : option nat) : bool :=
  match a, b with
  | Some x, Some y => x =? y
  | None, None => true
  | _, _ => false
  end.

Definition accval_eqb (a b : accval) : bool :=
  (fst a =? fst b) && opt_nat_eqb (snd a) (snd b).

Fixpoint acc_list_eqb (a b : list accval) : bool :=
  match a, b with
  | [], [] => true
  | x :: a', y :: b' => accval_eqb x y && acc_list_eqb a' b'
  | _, _ => false
  end.

Lemma accval_eqb_eq : forall a b, accval_eqb a b = true -> a = b.
Proof.
  intros [a1 a2] [b1 b2]. unfold accval_eqb. cbn [fst snd]. intros H.
  apply andb_true_iff in H. destruct H as [H1 H2]. apply Nat.eqb_eq in H1. subst.
  destruct a2, b2; cbn in H2; try discriminate; [|reflexivity].
  apply Nat.eqb_eq in H2. subst. reflexivity.
Qed.

Lemma acc_list_eqb_eq : forall a b, acc_list_eqb a b = true -> a = b.
Proof.
  induction a as [|x a IH]; destruct b as [|y b]; cbn [acc_list_eqb]; intros H;
    try discriminate; [reflexivity|].
  apply andb_true_iff in H. destruct H as [H1 H2]. apply accval_eqb_eq in H1.
  f_equal; auto.
Qed.

(* ------------------------------------------------------------------ *)
(* boolean side conditions *)

Definition all_lt (len : nat) (l : list nat) : bool := forallb (fun t => t <? len) l.

Definition nstate_targets_ok_b (len : nat) (st : nstate) : bool :=
  all_lt len (n_eps st) && all_lt len (n_any st) && all_lt len (n_eoi st)
  && forallb (fun p => all_lt len (snd p)) (n_chars st)
  && forallb (fun r => all_lt len (r_val r)) (n_ranges st).

Definition nfa_targets_ok_b (n : nfa) : bool :=
  let len := length n in forallb (nstate_targets_ok_b len) n.

Definition nfa_ranges_wf_b (n : nfa) : bool := forallb (fun st => wf (n_ranges st)) n.

Definition dfa_wf_b (d : dfa nat) : bool := forallb (fun st => wf (d_ranges st)) d.

Lemma all_lt_sound : forall len l t, all_lt len l = true -> In t l -> t < len.
Proof.
  intros len l t H Ht. unfold all_lt in H. rewrite forallb_forall in H.
  apply Nat.ltb_lt. auto.
Qed.

Lemma assoc_N_in : forall A k (l : list (N * A)) v, assoc_N k l = Some v -> In (k, v) l.
Proof.
  induction l as [|[k' v'] t IH]; intros v H; cbn [assoc_N] in H; [discriminate|].
  destruct (N.eqb_spec k k') as [->|].
  - injection H as ->. left. reflexivity.
  - right. auto.
Qed.

Theorem nfa_targets_ok_b_sound : forall n, nfa_targets_ok_b n = true -> nfa_targets_ok n.
Proof.
  intros n H s t Hs Ht. unfold nfa_targets_ok_b in H. rewrite forallb_forall in H.
  specialize (H (nget n s) (nth_In _ _ Hs)). unfold nstate_targets_ok_b in H.
  repeat (apply andb_true_iff in H; destruct H as [H ?]).
  destruct Ht as [Ht|[Ht|[Ht|[(c & l & Hl & Ht)|(r & Hr & Ht)]]]].
  - refine (all_lt_sound _ _ _ _ Ht); assumption.
  - refine (all_lt_sound _ _ _ _ Ht); assumption.
  - refine (all_lt_sound _ _ _ _ Ht); assumption.
  - apply assoc_N_in in Hl.
    match goal with H : forallb _ (n_chars _) = true |- _ => rewrite forallb_forall in H;
      specialize (H _ Hl); cbn [snd] in H end.
    refine (all_lt_sound _ _ _ _ Ht); assumption.
  - match goal with H : forallb _ (n_ranges _) = true |- _ => rewrite forallb_forall in H;
      specialize (H _ Hr) end.
    refine (all_lt_sound _ _ _ _ Ht); assumption.
Qed.

Theorem nfa_ranges_wf_b_sound : forall n, nfa_ranges_wf_b n = true ->
  forall s, wf (n_ranges (nget n s)) = true.
Proof.
  intros n H s. unfold nfa_ranges_wf_b in H. rewrite forallb_forall in H.
  destruct (Nat.lt_ge_cases s (length n)) as [Hs|Hs].
  - apply H. apply nth_In. assumption.
  - unfold nget. rewrite nth_overflow by assumption. reflexivity.
Qed.

Theorem dfa_wf_b_sound : forall d, dfa_wf_b d = true ->
  forall i, wf (d_ranges (dget d i)) = true.
Proof.
  intros d H i. unfold dfa_wf_b in H. rewrite forallb_forall in H.
  destruct (Nat.lt_ge_cases i (length d)) as [Hs|Hs].
  - apply H. apply nth_In. assumption.
  - unfold dget. rewrite nth_overflow by assumption. reflexivity.
Qed.

(* ------------------------------------------------------------------ *)
(* breakpoints *)

Definition keys_bps {A} (l : list (N * A)) : list N :=
  flat_map (fun p => [fst p; (fst p + 1)%N]) l.

Definition ranges_bps {A} (rs : rmap A) : list N :=
  flat_map (fun r => [r_lo r; (r_hi r + 1)%N]) rs.

Definition nstate_bps (st : nstate) : list N := keys_bps (n_chars st) ++ ranges_bps (n_ranges st).

Definition dstate_bps {T} (st : dstate T) : list N :=
  keys_bps (d_chars st) ++ ranges_bps (d_ranges st).

Definition raw_bps (n : nfa) (st : dstate nat) (S : list nat) : list N :=
  dstate_bps st ++ flat_map (fun s => nstate_bps (nget n s)) S.

(* sort and remove duplicates: efficiency only *)
Module NOrder <: TotalLeBool.
  Definition t := N.
  Definition leb := N.leb.
  Theorem leb_total : forall a b, leb a b = true \/ leb b a = true.
  Proof.
    intros a b. unfold leb. destruct (N.leb_spec a b); [left; reflexivity|].
    right. apply N.leb_le. lia.
  Qed.
End NOrder.
Module NSort := Sort NOrder.

Fixpoint dedup_adj (l : list N) : list N :=
  match l with
  | [] => []
  | x :: t =>
      match t with
      | [] => [x]
      | y :: _ => if (x =? y)%N then dedup_adj t else x :: dedup_adj t
      end
  end.

Lemma dedup_adj_in : forall l x, In x l -> In x (dedup_adj l).
Proof.
  induction l as [|a t IH]; intros x Hx; [destruct Hx|].
  cbn [dedup_adj]. destruct t as [|y t'].
  - assumption.
  - destruct (N.eqb_spec a y) as [->|Hne].
    + apply IH. destruct Hx as [<-|Hx]; [left; reflexivity|assumption].
    + destruct Hx as [<-|Hx]; [left; reflexivity|right; apply IH; assumption].
Qed.

Definition bps (n : nfa) (st : dstate nat) (S : list nat) : list N :=
  0%N :: dedup_adj (NSort.sort (raw_bps n st S)).

Lemma bps_in : forall n st S k, k = 0%N \/ In k (raw_bps n st S) -> In k (bps n st S).
Proof.
  intros n st S k [->|H]; [left; reflexivity|]. right. apply dedup_adj_in.
  eapply Permutation_in; [apply NSort.Permuted_sort|assumption].
Qed.

(* ------------------------------------------------------------------ *)
(* largest breakpoint below c, stability between breakpoints *)

Fixpoint maxle (c : N) (l : list N) : N :=
  match l with
  | [] => 0%N
  | k :: t => let b := maxle c t in if ((k <=? c) && (b <? k))%N then k else b
  end.

(* no breakpoint of l in (b, c] *)
Definition stable_at (l : list N) (b c : N) : Prop :=
  (b <= c)%N /\ forall k, In k l -> (k <= c)%N -> (k <= b)%N.

Lemma maxle_spec : forall c l,
  stable_at l (maxle c l) c /\ (maxle c l = 0%N \/ In (maxle c l) l).
Proof.
  intros c. induction l as [|k t IH]; cbn [maxle].
  - split; [|left; reflexivity]. split; [lia|]. intros k [].
  - destruct IH as [[H1 H2] H3].
    destruct (N.leb_spec k c) as [Hk|Hk]; cbn [andb].
    + destruct (N.ltb_spec (maxle c t) k) as [Hb|Hb].
      * split; [|right; left; reflexivity]. split; [assumption|].
        intros k' [<-|Hk'] Hle; [lia|]. specialize (H2 k' Hk' Hle). lia.
      * split; [|destruct H3; [left|right; right]; assumption].
        split; [assumption|]. intros k' [<-|Hk'] Hle; [lia|]. auto.
    + split; [|destruct H3; [left|right; right]; assumption].
      split; [assumption|]. intros k' [<-|Hk'] Hle; [lia|]. auto.
Qed.

Lemma stable_incl : forall l l' b c, incl l' l -> stable_at l b c -> stable_at l' b c.
Proof. intros l l' b c Hi [H1 H2]. split; [assumption|]. intros k Hk. apply H2, Hi, Hk. Qed.

Lemma stable_app_l : forall l1 l2 b c, stable_at (l1 ++ l2) b c -> stable_at l1 b c.
Proof. intros. eapply stable_incl; [|eassumption]. apply incl_appl, incl_refl. Qed.

Lemma stable_app_r : forall l1 l2 b c, stable_at (l1 ++ l2) b c -> stable_at l2 b c.
Proof. intros. eapply stable_incl; [|eassumption]. apply incl_appr, incl_refl. Qed.

Lemma key_stable : forall k b c, stable_at [k; (k + 1)%N] b c -> (c =? k)%N = (b =? k)%N.
Proof.
  intros k b c [H1 H2].
  pose proof (H2 k (or_introl eq_refl)) as Ha.
  pose proof (H2 (k + 1)%N (or_intror (or_introl eq_refl))) as Hb.
  destruct (N.eqb_spec c k); destruct (N.eqb_spec b k); try reflexivity; lia.
Qed.

Lemma in_range_stable : forall A (r : range A) b c,
  stable_at [r_lo r; (r_hi r + 1)%N] b c -> in_range r c = in_range r b.
Proof.
  intros A r b c [H1 H2].
  pose proof (H2 (r_lo r) (or_introl eq_refl)) as Ha.
  pose proof (H2 (r_hi r + 1)%N (or_intror (or_introl eq_refl))) as Hb.
  unfold in_range.
  destruct (N.leb_spec (r_lo r) c); destruct (N.leb_spec c (r_hi r));
    destruct (N.leb_spec (r_lo r) b); destruct (N.leb_spec b (r_hi r));
    try reflexivity; lia.
Qed.

Lemma assoc_N_stable : forall A (l : list (N * A)) b c,
  stable_at (keys_bps l) b c -> assoc_N c l = assoc_N b l.
Proof.
  induction l as [|[k v] t IH]; intros b c H; [reflexivity|].
  cbn [assoc_N]. unfold keys_bps in H. cbn [flat_map fst app] in H.
  rewrite (key_stable k b c).
  - destruct (b =? k)%N; [reflexivity|]. apply IH.
    eapply stable_incl; [|exact H]. intros x Hx. right. right. exact Hx.
  - eapply stable_incl; [|exact H]. intros x [<-|[<-|[]]]; [left|right; left]; reflexivity.
Qed.

Lemma lookup_stable : forall A (rs : rmap A) b c,
  stable_at (ranges_bps rs) b c -> lookup rs c = lookup rs b.
Proof.
  induction rs as [|r t IH]; intros b c H; [reflexivity|].
  cbn [lookup]. unfold ranges_bps in H. cbn [flat_map app] in H.
  rewrite (in_range_stable A r b c).
  - destruct (in_range r b); [reflexivity|]. apply IH.
    eapply stable_incl; [|exact H]. intros x Hx. right. right. exact Hx.
  - eapply stable_incl; [|exact H]. intros x [<-|[<-|[]]]; [left|right; left]; reflexivity.
Qed.

Lemma range_targets_stable : forall (rs : rmap (list nat)) b c,
  stable_at (ranges_bps rs) b c ->
  flat_map (fun r => if in_range r c then r_val r else []) rs
  = flat_map (fun r => if in_range r b then r_val r else []) rs.
Proof.
  induction rs as [|r t IH]; intros b c H; [reflexivity|].
  cbn [flat_map]. unfold ranges_bps in H. cbn [flat_map app] in H.
  rewrite (in_range_stable _ r b c).
  - f_equal. apply IH.
    eapply stable_incl; [|exact H]. intros x Hx. right. right. exact Hx.
  - eapply stable_incl; [|exact H]. intros x [<-|[<-|[]]]; [left|right; left]; reflexivity.
Qed.

Lemma n_char_targets_stable : forall st b c,
  stable_at (nstate_bps st) b c -> n_char_targets st c = n_char_targets st b.
Proof.
  intros st b c H. unfold n_char_targets, nstate_bps in *.
  rewrite (assoc_N_stable _ (n_chars st) b c) by (eapply stable_app_l; eauto).
  rewrite (range_targets_stable (n_ranges st) b c) by (eapply stable_app_r; eauto).
  reflexivity.
Qed.

Lemma dfa_char_next_stable : forall T (st : dstate T) b c,
  stable_at (dstate_bps st) b c -> dfa_char_next st c = dfa_char_next st b.
Proof.
  intros T st b c H. unfold dfa_char_next, dstate_bps in *.
  rewrite (assoc_N_stable _ (d_chars st) b c) by (eapply stable_app_l; eauto).
  rewrite (lookup_stable _ (d_ranges st) b c) by (eapply stable_app_r; eauto).
  reflexivity.
Qed.

Lemma set_step_stable : forall n S b c,
  stable_at (flat_map (fun s => nstate_bps (nget n s)) S) b c ->
  set_step n S (Chr c) = set_step n S (Chr b).
Proof.
  intros n S b c H. unfold set_step. f_equal.
  induction S as [|s S IH]; [reflexivity|]. cbn [flat_map] in *.
  cbn [n_sym_targets] in *. f_equal.
  - apply n_char_targets_stable. eapply stable_app_l; eauto.
  - apply IH. eapply stable_app_r; eauto.
Qed.

(* ------------------------------------------------------------------ *)
(* the dc_step condition for one DFA state (label S) and one symbol *)

Definition step_ok (n : nfa) (d : dfa nat) (m : state_map) (i : nat) (S : list nat) (x : sym)
  : Prop :=
  match closure n (set_step n S x) with
  | Panic _ => False
  | Ok [] => dfa_next (dget d i) x = None
  | Ok S' => exists j, dfa_next (dget d i) x = Some j /\ j < length d /\ label_of m j = Some S'
  end.

(* transfer from the largest breakpoint below c to c *)
Lemma step_ok_transfer : forall n d m i S c,
  (forall b, In b (bps n (dget d i) S) -> step_ok n d m i S (Chr b)) ->
  step_ok n d m i S (Chr c).
Proof.
  intros n d m i S c H.
  set (raw := raw_bps n (dget d i) S).
  destruct (maxle_spec c raw) as [Hst Hin].
  assert (Hb : step_ok n d m i S (Chr (maxle c raw))) by (apply H, bps_in, Hin).
  unfold step_ok in *. cbn [dfa_next] in *.
  rewrite (set_step_stable n S (maxle c raw) c)
    by (unfold raw, raw_bps in Hst; eapply stable_app_r; eauto).
  rewrite (dfa_char_next_stable _ (dget d i) (maxle c raw) c)
    by (unfold raw, raw_bps in Hst; eapply stable_app_l; eauto).
  exact Hb.
Qed.

Definition check_init (n : nfa) (m : state_map) : bool :=
  match closure n [0] with
  | Ok c => match label_of m 0 with Some L => list_nat_eqb L c | None => false end
  | Panic _ => false
  end.

Lemma check_init_sound : forall n m, check_init n m = true ->
  label_of m 0 = Some (match closure n [0] with Ok c => c | Panic _ => [] end)
  /\ is_ok (closure n [0]) = true.
Proof.
  intros n m Hi. unfold check_init in Hi. destruct (closure n [0]) as [c|]; [|discriminate].
  destruct (label_of m 0) as [L|]; [|discriminate]. apply list_nat_eqb_eq in Hi. subst.
  split; reflexivity.
Qed.

(* ------------------------------------------------------------------ *)
(* reference checker: evaluates the model functions at every breakpoint; sound without any
   side condition, quadratic in the size of the range tables *)

Definition check_sym (n : nfa) (m : state_map) (len : nat) (st : dstate nat) (S : list nat)
           (x : sym) : bool :=
  match closure n (set_step n S x) with
  | Panic _ => false
  | Ok [] => match dfa_next st x with None => true | Some _ => false end
  | Ok S' =>
      match dfa_next st x with
      | Some j => (j <? len)
                  && match label_of m j with Some L => list_nat_eqb L S' | None => false end
      | None => false
      end
  end.

Definition check_state_simple (n : nfa) (d : dfa nat) (m : state_map) (len : nat) (i : nat)
  : bool :=
  let st := dget d i in
  match label_of m i with
  | None => false
  | Some lbl =>
      acc_list_eqb (d_acc st) (set_accepting n lbl)
      && check_sym n m len st lbl Eoi
      && forallb (fun b => check_sym n m len st lbl (Chr b)) (bps n st lbl)
  end.

Definition dfa_closed_b_simple (n : nfa) (d : dfa nat) (m : state_map) : bool :=
  check_init n m && forallb (check_state_simple n d m (length d)) (seq 0 (length d)).

Lemma check_sym_sound : forall n d m i S x,
  check_sym n m (length d) (dget d i) S x = true -> step_ok n d m i S x.
Proof.
  intros n d m i S x H. unfold check_sym in H. unfold step_ok.
  destruct (closure n (set_step n S x)) as [[|a S']|]; [| |discriminate].
  - destruct (dfa_next (dget d i) x); [discriminate|reflexivity].
  - destruct (dfa_next (dget d i) x) as [j|]; [|discriminate].
    apply andb_true_iff in H. destruct H as [H1 H2]. apply Nat.ltb_lt in H1.
    destruct (label_of m j) as [L|] eqn:EL; [|discriminate]. apply list_nat_eqb_eq in H2. subst L.
    exists j. split; [reflexivity|]. split; assumption.
Qed.

Lemma check_state_simple_sound : forall n d m i S,
  check_state_simple n d m (length d) i = true -> label_of m i = Some S ->
  d_acc (dget d i) = set_accepting n S /\ forall x, step_ok n d m i S x.
Proof.
  intros n d m i S H Hl. unfold check_state_simple in H. rewrite Hl in H.
  apply andb_true_iff in H. destruct H as [H H3].
  apply andb_true_iff in H. destruct H as [H1 H2].
  split; [apply acc_list_eqb_eq; assumption|].
  intros [c|]; [|apply check_sym_sound; assumption].
  rewrite forallb_forall in H3.
  apply step_ok_transfer. intros b Hb. apply check_sym_sound. auto.
Qed.

Theorem dfa_closed_b_simple_sound : forall n d m,
  dfa_closed_b_simple n d m = true -> dfa_closed n d m.
Proof.
  intros n d m H. unfold dfa_closed_b_simple in H. apply andb_true_iff in H.
  destruct H as [Hi Hs]. rewrite forallb_forall in Hs.
  assert (Hst : forall i, i < length d -> check_state_simple n d m (length d) i = true).
  { intros i Hlt. apply Hs. apply in_seq. lia. }
  constructor.
  - apply check_init_sound. assumption.
  - intros i Hlt. specialize (Hst i Hlt). unfold check_state_simple in Hst.
    destruct (label_of m i) as [S|]; [eauto|discriminate].
  - intros i S x Hlt Hl. apply (check_state_simple_sound n d m i S (Hst i Hlt) Hl).
  - intros i S Hlt Hl. apply (check_state_simple_sound n d m i S (Hst i Hlt) Hl).
Qed.

(* ------------------------------------------------------------------ *)
(* fast evaluation on well-formed (sorted, disjoint) range maps: early exit, and pieces that
   end below the current breakpoint are dropped while the breakpoints are swept in
   ascending order *)

Section FastRanges.
Context {A : Type}.

Fixpoint lookup_s (rs : rmap A) (c : N) : option A :=
  match rs with
  | [] => None
  | r :: t => if (c <? r_lo r)%N then None
              else if (c <=? r_hi r)%N then Some (r_val r) else lookup_s t c
  end.

Fixpoint trim (b : N) (rs : rmap A) : rmap A :=
  match rs with
  | [] => []
  | r :: t => if (r_hi r <? b)%N then trim b t else rs
  end.

Lemma lookup_s_ok : forall (rs : rmap A) lb c, wf_from lb rs = true -> lookup_s rs c = lookup rs c.
Proof.
  induction rs as [|r t IH]; intros lb c H; [reflexivity|].
  apply wf_from_cons in H. destruct H as (H1 & H2 & H3).
  cbn [lookup_s lookup]. unfold in_range.
  destruct (N.ltb_spec c (r_lo r)).
  - destruct (N.leb_spec (r_lo r) c); [lia|]. cbn [andb]. symmetry.
    eapply lookup_below; eauto. lia.
  - destruct (N.leb_spec (r_lo r) c); [|lia]. cbn [andb].
    destruct (N.leb_spec c (r_hi r)); [reflexivity|]. eapply IH; eauto.
Qed.

Lemma trim_lookup : forall (rs : rmap A) b c, (b <= c)%N -> lookup (trim b rs) c = lookup rs c.
Proof.
  induction rs as [|r t IH]; intros b c H; [reflexivity|].
  cbn [trim]. destruct (N.ltb_spec (r_hi r) b); [|reflexivity].
  rewrite IH by assumption. cbn [lookup]. unfold in_range.
  destruct (N.leb_spec c (r_hi r)); [lia|]. rewrite andb_false_r. reflexivity.
Qed.

Lemma trim_wf : forall (rs : rmap A) b, wf rs = true -> wf (trim b rs) = true.
Proof.
  induction rs as [|r t IH]; intros b H; [reflexivity|].
  cbn [trim]. destruct (N.ltb_spec (r_hi r) b); [|assumption].
  apply IH. unfold wf in H. apply wf_from_cons in H. destruct H as (_ & _ & H).
  eapply wf_from_none; eauto.
Qed.

End FastRanges.

Lemma range_targets_below : forall (rs : rmap (list nat)) b c,
  wf_from (Some b) rs = true -> (c <= b)%N ->
  flat_map (fun r => if in_range r c then r_val r else []) rs = [].
Proof.
  induction rs as [|r t IH]; intros b c H Hc; [reflexivity|].
  apply wf_from_cons in H. destruct H as (H1 & H2 & H3). cbn [lb_lt] in H2.
  cbn [flat_map]. unfold in_range at 1.
  destruct (N.leb_spec (r_lo r) c); [lia|]. cbn [andb app].
  eapply IH; eauto. lia.
Qed.

Lemma range_targets_lookup : forall (rs : rmap (list nat)) lb c,
  wf_from lb rs = true ->
  flat_map (fun r => if in_range r c then r_val r else []) rs
  = match lookup rs c with Some v => v | None => [] end.
Proof.
  induction rs as [|r t IH]; intros lb c H; [reflexivity|].
  apply wf_from_cons in H. destruct H as (H1 & H2 & H3).
  cbn [flat_map lookup]. destruct (in_range r c) eqn:E.
  - rewrite (range_targets_below t (r_hi r) c); [apply app_nil_r|assumption|].
    unfold in_range in E. apply andb_true_iff in E. destruct E as [_ E].
    apply N.leb_le in E. exact E.
  - cbn [app]. eapply IH; eauto.
Qed.

Definition n_char_targets_s (st : nstate) (c : N) : list nat :=
  (match assoc_N c (n_chars st) with Some l => l | None => [] end)
  ++ (match lookup_s (n_ranges st) c with Some v => v | None => [] end)
  ++ n_any st.

Definition dnext_s (st : dstate nat) (c : N) : option nat :=
  match assoc_N c (d_chars st) with
  | Some t => Some t
  | None => match lookup_s (d_ranges st) c with
            | Some t => Some t
            | None => d_any st
            end
  end.

Definition trim_n (b : N) (st : nstate) : nstate :=
  mkN (n_chars st) (trim b (n_ranges st)) (n_eps st) (n_any st) (n_eoi st) (n_acc st).

Definition trim_d (b : N) (st : dstate nat) : dstate nat :=
  mkD (d_init st) (d_chars st) (trim b (d_ranges st)) (d_any st) (d_eoi st) (d_acc st)
      (d_preds st) (d_bt st).

Lemma n_char_targets_s_ok : forall st c,
  wf (n_ranges st) = true -> n_char_targets_s st c = n_char_targets st c.
Proof.
  intros st c H. unfold n_char_targets_s, n_char_targets.
  rewrite (range_targets_lookup _ None c H), (lookup_s_ok _ None c H). reflexivity.
Qed.

Lemma trim_n_targets : forall st b c, wf (n_ranges st) = true -> (b <= c)%N ->
  n_char_targets (trim_n b st) c = n_char_targets st c.
Proof.
  intros st b c H Hc. unfold n_char_targets, trim_n. cbn [n_chars n_ranges n_any].
  rewrite (range_targets_lookup _ None c (trim_wf _ b H)), (range_targets_lookup _ None c H).
  rewrite trim_lookup by assumption. reflexivity.
Qed.

Lemma dnext_s_ok : forall st c, wf (d_ranges st) = true -> dnext_s st c = dfa_char_next st c.
Proof.
  intros st c H. unfold dnext_s, dfa_char_next. rewrite (lookup_s_ok _ None c H). reflexivity.
Qed.

Lemma trim_d_next : forall st b c, (b <= c)%N ->
  dfa_char_next (trim_d b st) c = dfa_char_next st c.
Proof.
  intros st b c Hc. unfold dfa_char_next, trim_d. cbn [d_chars d_ranges d_any].
  rewrite trim_lookup by assumption. reflexivity.
Qed.

Lemma flat_map_map : forall A B C (f : B -> list C) (g : A -> B) l,
  flat_map f (map g l) = flat_map (fun x => f (g x)) l.
Proof. induction l as [|a l IH]; cbn [map flat_map]; [reflexivity|]. rewrite IH. reflexivity. Qed.

(* ------------------------------------------------------------------ *)
(* the fast checker *)

Definition pair_eqb (p q : list nat * option nat) : bool :=
  list_nat_eqb (fst p) (fst q) && opt_nat_eqb (snd p) (snd q).

Lemma pair_eqb_eq : forall p q, pair_eqb p q = true -> p = q.
Proof.
  intros [a1 a2] [b1 b2]. unfold pair_eqb. cbn [fst snd]. intros H.
  apply andb_true_iff in H. destruct H as [H1 H2]. apply list_nat_eqb_eq in H1. subst.
  destruct a2, b2; cbn in H2; try discriminate; [|reflexivity].
  apply Nat.eqb_eq in H2. subst. reflexivity.
Qed.

Definition targets_s (sts : list nstate) (c : N) : list nat :=
  set_of_list (flat_map (fun st => n_char_targets_s st c) sts).

Section Sweep.
Variables (n : nfa) (labels : list (option (list nat))) (len : nat).

(* the dc_step test for the (unclosed) NFA target set and the DFA successor *)
Definition check_tn (tg : list nat) (nx : option nat) : bool :=
  match closure n tg with
  | Panic _ => false
  | Ok [] => match nx with None => true | Some _ => false end
  | Ok S' =>
      match nx with
      | Some j => (j <? len)
                  && match nth j labels None with Some L => list_nat_eqb L S' | None => false end
      | None => false
      end
  end.

(* [cache]: pairs already tested for this state; [prev]: previous breakpoint *)
Fixpoint sweep (cache : list (list nat * option nat)) (prev : N) (bs : list N)
         (dst : dstate nat) (sts : list nstate) : bool :=
  match bs with
  | [] => true
  | b :: t =>
      (prev <=? b)%N
      && (let dst' := trim_d b dst in
          let sts' := map (trim_n b) sts in
          let tg := targets_s sts' b in
          let nx := dnext_s dst' b in
          if existsb (pair_eqb (tg, nx)) cache then sweep cache b t dst' sts'
          else check_tn tg nx && sweep ((tg, nx) :: cache) b t dst' sts')
  end.

Definition check_state (d : dfa nat) (i : nat) : bool :=
  let st := dget d i in
  match nth i labels None with
  | None => false
  | Some lbl =>
      acc_list_eqb (d_acc st) (set_accepting n lbl)
      && check_tn (set_step n lbl Eoi) (d_eoi st)
      && sweep [] 0%N (bps n st lbl) st (map (nget n) lbl)
  end.

(* soundness of the sweep w.r.t. the untrimmed state dst0 / sts0 *)
Variables (dst0 : dstate nat) (sts0 : list nstate).

Definition agree (p : N) (dst : dstate nat) (sts : list nstate) : Prop :=
  wf (d_ranges dst) = true
  /\ Forall (fun st => wf (n_ranges st) = true) sts
  /\ forall c, (p <= c)%N ->
       dfa_char_next dst c = dfa_char_next dst0 c
       /\ flat_map (fun st => n_char_targets st c) sts
          = flat_map (fun st => n_char_targets st c) sts0.

Lemma agree_trim : forall p b dst sts, agree p dst sts -> (p <= b)%N ->
  agree b (trim_d b dst) (map (trim_n b) sts).
Proof.
  intros p b dst sts (H1 & H2 & H3) Hp. split; [|split].
  - unfold trim_d. cbn [d_ranges]. apply trim_wf. assumption.
  - rewrite Forall_forall in *. intros st Hst. apply in_map_iff in Hst.
    destruct Hst as (st' & <- & Hst'). unfold trim_n. cbn [n_ranges]. apply trim_wf. auto.
  - intros c Hc. destruct (H3 c) as [E1 E2]; [lia|]. split.
    + rewrite trim_d_next by assumption. assumption.
    + rewrite <- E2. clear - H2 Hc. induction sts as [|st sts IH]; [reflexivity|].
      cbn [map flat_map]. inversion H2; subst. rewrite trim_n_targets by assumption.
      rewrite IH by assumption. reflexivity.
Qed.

Lemma agree_eval : forall p c dst sts, agree p dst sts -> (p <= c)%N ->
  dnext_s dst c = dfa_char_next dst0 c
  /\ targets_s sts c = set_of_list (flat_map (fun st => n_char_targets st c) sts0).
Proof.
  intros p c dst sts (H1 & H2 & H3) Hc. destruct (H3 c Hc) as [E1 E2]. split.
  - rewrite dnext_s_ok by assumption. assumption.
  - unfold targets_s. rewrite <- E2. f_equal. clear - H2.
    induction sts as [|st sts IH]; [reflexivity|]. cbn [flat_map]. inversion H2; subst.
    rewrite n_char_targets_s_ok by assumption. rewrite IH by assumption. reflexivity.
Qed.

Lemma sweep_sound : forall bs cache prev dst sts,
  Forall (fun p => check_tn (fst p) (snd p) = true) cache ->
  agree prev dst sts ->
  sweep cache prev bs dst sts = true ->
  forall b, In b bs ->
    check_tn (set_of_list (flat_map (fun st => n_char_targets st b) sts0))
             (dfa_char_next dst0 b) = true.
Proof.
  induction bs as [|b0 t IH]; intros cache prev dst sts Hc Ha H b Hb; [destruct Hb|].
  cbn [sweep] in H. apply andb_true_iff in H. destruct H as [Hp H].
  apply N.leb_le in Hp.
  pose proof (agree_trim _ _ _ _ Ha Hp) as Ha'.
  destruct (agree_eval b0 b0 _ _ Ha' (N.le_refl _)) as [E1 E2].
  cbv zeta in H. rewrite E1, E2 in H.
  set (tg := set_of_list (flat_map (fun st => n_char_targets st b0) sts0)) in *.
  set (nx := dfa_char_next dst0 b0) in *.
  assert (Hboth : check_tn tg nx = true
                  /\ exists cache', Forall (fun p => check_tn (fst p) (snd p) = true) cache'
                       /\ sweep cache' b0 t (trim_d b0 dst) (map (trim_n b0) sts) = true).
  { destruct (existsb (pair_eqb (tg, nx)) cache) eqn:Ee.
    - apply existsb_exists in Ee. destruct Ee as (q & Hq & Heq). apply pair_eqb_eq in Heq.
      subst q. rewrite Forall_forall in Hc. split; [apply (Hc _ Hq)|]. exists cache.
      split; [apply Forall_forall; assumption|assumption].
    - apply andb_true_iff in H. destruct H as [H1 H2]. split; [assumption|].
      exists ((tg, nx) :: cache). split; [constructor; assumption|assumption]. }
  destruct Hboth as (Hchk & cache' & Hc' & Hsw).
  destruct Hb as [<-|Hb]; [exact Hchk|].
  eapply IH; eauto.
Qed.

End Sweep.

Definition dfa_closed_b (n : nfa) (d : dfa nat) (m : state_map) : bool :=
  let len := length d in
  let labels := map (label_of m) (seq 0 len) in
  check_init n m && forallb (check_state n labels len d) (seq 0 len).

Lemma nth_labels : forall m len j, j < len ->
  nth j (map (label_of m) (seq 0 len)) None = label_of m j.
Proof.
  intros m len j H.
  rewrite (nth_indep _ None (label_of m 0)) by (rewrite map_length, seq_length; assumption).
  rewrite map_nth, seq_nth by assumption. reflexivity.
Qed.

Lemma check_tn_sound : forall n d m i S x,
  check_tn n (map (label_of m) (seq 0 (length d))) (length d)
           (set_step n S x) (dfa_next (dget d i) x) = true ->
  step_ok n d m i S x.
Proof.
  intros n d m i S x H. unfold check_tn in H. unfold step_ok.
  destruct (closure n (set_step n S x)) as [[|a S']|]; [| |discriminate].
  - destruct (dfa_next (dget d i) x); [discriminate|reflexivity].
  - destruct (dfa_next (dget d i) x) as [j|]; [|discriminate].
    apply andb_true_iff in H. destruct H as [H1 H2]. apply Nat.ltb_lt in H1.
    rewrite nth_labels in H2 by assumption.
    destruct (label_of m j) as [L|] eqn:EL; [|discriminate]. apply list_nat_eqb_eq in H2. subst L.
    exists j. split; [reflexivity|]. split; assumption.
Qed.

Lemma check_state_sound : forall n d m i S,
  (forall s, wf (n_ranges (nget n s)) = true) -> (forall j, wf (d_ranges (dget d j)) = true) ->
  i < length d ->
  check_state n (map (label_of m) (seq 0 (length d))) (length d) d i = true ->
  label_of m i = Some S ->
  d_acc (dget d i) = set_accepting n S /\ forall x, step_ok n d m i S x.
Proof.
  intros n d m i S Hwn Hwd Hi H Hl. unfold check_state in H.
  rewrite nth_labels, Hl in H by assumption.
  apply andb_true_iff in H. destruct H as [H H3].
  apply andb_true_iff in H. destruct H as [H1 H2].
  split; [apply acc_list_eqb_eq; assumption|].
  intros [c|]; [|apply check_tn_sound; exact H2].
  apply step_ok_transfer. intros b Hb. apply check_tn_sound.
  cbn [dfa_next]. unfold set_step. cbn [n_sym_targets].
  rewrite <- (flat_map_map _ _ _ (fun st => n_char_targets st b) (nget n) S).
  eapply sweep_sound; [constructor| |exact H3|exact Hb].
  split; [apply Hwd|]. split.
  - apply Forall_forall. intros st Hst. apply in_map_iff in Hst.
    destruct Hst as (s & <- & _). apply Hwn.
  - intros c0 _. split; reflexivity.
Qed.

(* nfa_targets_ok_b is not needed for soundness of the certificate check *)
Theorem dfa_closed_b_sound_strong : forall n d m,
  nfa_ranges_wf_b n = true -> dfa_wf_b d = true ->
  dfa_closed_b n d m = true -> dfa_closed n d m.
Proof.
  intros n d m Hwn Hwd H.
  pose proof (nfa_ranges_wf_b_sound n Hwn) as Hwn'. pose proof (dfa_wf_b_sound d Hwd) as Hwd'.
  unfold dfa_closed_b in H. cbv zeta in H. apply andb_true_iff in H.
  destruct H as [Hi Hs]. rewrite forallb_forall in Hs.
  assert (Hst : forall i, i < length d ->
            check_state n (map (label_of m) (seq 0 (length d))) (length d) d i = true).
  { intros i Hlt. apply Hs. apply in_seq. lia. }
  constructor.
  - apply check_init_sound. assumption.
  - intros i Hlt. specialize (Hst i Hlt). unfold check_state in Hst.
    rewrite nth_labels in Hst by assumption.
    destruct (label_of m i) as [S|]; [eauto|discriminate].
  - intros i S x Hlt Hl. apply (check_state_sound n d m i S Hwn' Hwd' Hlt (Hst i Hlt) Hl).
  - intros i S Hlt Hl. apply (check_state_sound n d m i S Hwn' Hwd' Hlt (Hst i Hlt) Hl).
Qed.

(* pinned form *)
Theorem dfa_closed_b_sound : forall n d m,
  nfa_targets_ok_b n = true -> nfa_ranges_wf_b n = true -> dfa_wf_b d = true ->
  dfa_closed_b n d m = true -> dfa_closed n d m.
Proof. intros n d m _. apply dfa_closed_b_sound_strong. Qed.

(* end-to-end: what a successful check means for every input word *)
Theorem dfa_closed_b_accepting : forall n d m,
  nfa_ranges_wf_b n = true -> dfa_wf_b d = true -> dfa_closed_b n d m = true -> 0 < length d ->
  forall w,
    match dfa_run d 0 w with
    | Some i => forall a, In a (d_acc (dget d i)) <-> naccepts n w a
    | None => forall a, ~ naccepts n w a
    end.
Proof.
  intros n d m Hwn Hwd H Hd w.
  assert (Hc : dfa_closed n d m) by (apply dfa_closed_b_sound_strong; assumption).
  destruct (dfa_run d 0 w) as [i|] eqn:E.
  - intros a. pose proof (dfa_closed_run_strong n d m Hc Hd w) as Hr. rewrite E in Hr.
    destruct Hr as (Hi & S & Hl & _ & _ & HmS).
    rewrite (dc_acc _ _ _ Hc i S Hi Hl), set_accepting_in. unfold naccepts.
    split; intros (s & Hs & Ha); exists s; split; auto; apply HmS; assumption.
  - eapply dfa_closed_stuck; eauto.
Qed.

Print Assumptions nfa_targets_ok_b_sound.
Print Assumptions nfa_ranges_wf_b_sound.
Print Assumptions dfa_wf_b_sound.
Print Assumptions dfa_closed_b_simple_sound.
Print Assumptions dfa_closed_b_sound_strong.
Print Assumptions dfa_closed_b_sound.
Print Assumptions dfa_closed_b_accepting.
