(* The class algebra: regex_to_range_map (Nfa.v) computes exactly the reference membership
   Spec.cmem of the (variable-expanded) class expression.  No axioms. *)
From LexVerif Require Import Base CharClass RangeMap RangeMapProofs Regex Spec Nfa.
From Coq Require Import List NArith Bool Lia.
Import ListNotations.
Local Open Scope N_scope.

(* all CRange a b in bracket sets are non-inverted *)
Definition cor_ok (x : cor) : bool :=
  match x with CRange a b => (a <=? b)%N | CChar _ => true end.

Fixpoint ranges_ok (r : regex) : bool :=
  match r with
  | RCharSet l => forallb (fun x => match x with CRange a b => (a <=? b)%N | CChar _ => true end) l
  | RStar a | RPlus a | ROpt a => ranges_ok a
  | RCat a b | ROr a b | RDiff a b => ranges_ok a && ranges_ok b
  | _ => true
  end.

Definition benv_wf (benv : builtin_env) : Prop :=
  forall n t, lookup_builtin n benv = Some t -> pairs_wf t = true.

(* ------------------------------------------------------------------ *)
(* built-in tables *)

Lemma pairs_to_rmap_wf_from : forall t lb,
  pairs_wf_from lb t = true -> wf_from lb (pairs_to_rmap t) = true.
Proof.
  induction t as [|[a b] t IH]; intros lb H; [reflexivity|].
  cbn [pairs_wf_from] in H. cbn [pairs_to_rmap map wf_from r_lo r_hi fst snd].
  apply andb_true_iff in H. destruct H as [H1 H2].
  rewrite H1. cbn [andb]. apply IH. exact H2.
Qed.

Lemma pairs_to_rmap_wf : forall t, pairs_wf t = true -> wf (pairs_to_rmap t) = true.
Proof. intros t H. apply pairs_to_rmap_wf_from. exact H. Qed.

Lemma pairs_to_rmap_covered : forall t c, covered (pairs_to_rmap t) c = in_pairs t c.
Proof.
  induction t as [|p t IH]; intros c; [reflexivity|].
  cbn [pairs_to_rmap map]. rewrite covered_cons. cbn [r_lo r_hi].
  cbn [in_pairs existsb]. unfold in_pair at 1.
  fold (pairs_to_rmap t). rewrite IH. unfold in_pairs.
  destruct ((fst p <=? c) && (c <=? snd p)); reflexivity.
Qed.

(* ------------------------------------------------------------------ *)
(* covered after insert / insert_ranges / remove_ranges *)

Lemma insert_covered : forall (A : Type) (merge : A -> A -> A) (rs : rmap A) lo hi v c,
  wf rs = true -> lo <= hi ->
  covered (insert merge rs lo hi v) c = ((lo <=? c) && (c <=? hi)) || covered rs c.
Proof.
  intros A merge rs lo hi v c W L. unfold covered.
  rewrite (insert_lookup A merge rs lo hi v c W L).
  destruct ((lo <=? c) && (c <=? hi)); reflexivity.
Qed.

Lemma insert_empty_covered : forall (A : Type) (merge : A -> A -> A) lo hi (v : A) c,
  lo <= hi ->
  covered (insert merge [] lo hi v) c = (lo <=? c) && (c <=? hi).
Proof.
  intros. rewrite insert_covered; [|reflexivity|assumption].
  cbn [covered lookup]. apply orb_false_r.
Qed.

Lemma union_covered : forall (A : Type) (merge : A -> A -> A) (m1 m2 : rmap A),
  wf m1 = true -> wf m2 = true ->
  exists m, insert_ranges merge m1 m2 = Some m /\ wf m = true /\
            forall c, covered m c = covered m1 c || covered m2 c.
Proof.
  intros A merge m1 m2 W1 W2.
  destruct (insert_ranges_correct A merge m1 m2 W1 W2) as (m & E & W & L).
  exists m. split; [exact E|]. split; [exact W|].
  intros c. unfold covered. rewrite L.
  destruct (lookup m1 c), (lookup m2 c); reflexivity.
Qed.

Lemma diff_covered : forall (A B : Type) (m1 : rmap A) (m2 : rmap B),
  wf m1 = true -> wf m2 = true ->
  exists m, remove_ranges m1 m2 = Some m /\ wf m = true /\
            forall c, covered m c = covered m1 c && negb (covered m2 c).
Proof.
  intros A B m1 m2 W1 W2.
  destruct (remove_ranges_correct A B m1 m2 W1 W2) as (m & E & W & L).
  exists m. split; [exact E|]. split; [exact W|].
  intros c. unfold covered at 1 2. rewrite L.
  destruct (covered m2 c), (lookup m1 c); reflexivity.
Qed.

(* ------------------------------------------------------------------ *)
(* insert_ranges / remove_ranges never run out of fuel (no wf needed) *)

Lemma nxt_len : forall A (l : rmap A),
  length (olist (fst (nxt l)) (snd (nxt l))) = length l.
Proof. intros. rewrite nxt_olist. reflexivity. Qed.

Lemma irgo_total : forall (A : Type) (merge : A -> A -> A) fuel h1 l1 h2 l2,
  (length (olist h1 l1) + length (olist h2 l2) < fuel)%nat ->
  exists rs, insert_ranges_go merge fuel h1 l1 h2 l2 = Some rs.
Proof.
  intros A merge. induction fuel as [|f IH]; intros h1 l1 h2 l2 Hf; [lia|].
  rewrite irgo_S.
  destruct h1 as [r1|], h2 as [r2|]; try (eexists; reflexivity).
  cbn [olist length] in Hf.
  assert (E1 : forall h l, (length (olist h l) + length (olist (Some r2) l2) < f)%nat ->
     exists rs, insert_ranges_go merge f h l (Some r2) l2 = Some rs) by (intros; apply IH; assumption).
  destruct (r_hi r1 <? r_lo r2).
  { destruct (IH (fst (nxt l1)) (snd (nxt l1)) (Some r2) l2) as (rs & E).
    - rewrite nxt_len. cbn [olist length]. lia.
    - rewrite E. eexists; reflexivity. }
  destruct (r_hi r2 <? r_lo r1).
  { destruct (IH (Some r1) l1 (fst (nxt l2)) (snd (nxt l2))) as (rs & E).
    - rewrite nxt_len. cbn [olist length]. lia.
    - rewrite E. eexists; reflexivity. }
  cbv zeta.
  destruct (r_hi r1 <? r_hi r2).
  { match goal with |- context[insert_ranges_go merge f ?a ?b ?c ?d] =>
      destruct (IH a b c d) as (rs & E) end.
    - rewrite nxt_len. cbn [olist length]. lia.
    - rewrite E. eexists; reflexivity. }
  destruct (r_hi r2 <? r_hi r1).
  { match goal with |- context[insert_ranges_go merge f ?a ?b ?c ?d] =>
      destruct (IH a b c d) as (rs & E) end.
    - rewrite nxt_len. cbn [olist length]. lia.
    - rewrite E. eexists; reflexivity. }
  match goal with |- context[insert_ranges_go merge f ?a ?b ?c ?d] =>
      destruct (IH a b c d) as (rs & E) end.
  - rewrite !nxt_len. lia.
  - rewrite E. eexists; reflexivity.
Qed.

Lemma insert_ranges_total : forall (A : Type) (merge : A -> A -> A) (m1 m2 : rmap A),
  exists m, insert_ranges merge m1 m2 = Some m.
Proof.
  intros.
  change (insert_ranges merge m1 m2) with
    (insert_ranges_go merge (length m1 + length m2 + 1)
       (fst (nxt m1)) (snd (nxt m1)) (fst (nxt m2)) (snd (nxt m2))).
  apply irgo_total. rewrite !nxt_len. lia.
Qed.

Lemma rmgo_total : forall (A B : Type) fuel (ho : option (range A)) lo_ (hr : option (range B)) lr,
  (length (olist ho lo_) + length (olist hr lr) < fuel)%nat ->
  exists rs, remove_go fuel ho lo_ hr lr = Some rs.
Proof.
  intros A B. induction fuel as [|f IH]; intros ho lo_ hr lr Hf; [lia|].
  rewrite rmgo_S.
  destruct ho as [o|]; [|eexists; reflexivity].
  destruct hr as [r|]; [|eexists; reflexivity].
  cbn [olist length] in Hf.
  assert (T1 : exists rs, remove_go f (fst (nxt lo_)) (snd (nxt lo_)) (Some r) lr = Some rs).
  { apply IH. rewrite nxt_len. cbn [olist length]. lia. }
  assert (T2 : forall o', exists rs, remove_go f (Some o') lo_ (fst (nxt lr)) (snd (nxt lr)) = Some rs).
  { intros o'. apply IH. rewrite nxt_len. cbn [olist length]. lia. }
  destruct T1 as (rs1 & E1).
  destruct (r_hi o <? r_lo r).
  { rewrite E1. eexists; reflexivity. }
  destruct (r_hi r <? r_lo o).
  { apply T2. }
  cbv zeta.
  destruct (N.max (r_lo o) (r_lo r) =? r_lo o).
  { destruct (N.min (r_hi o) (r_hi r) =? r_hi o).
    - rewrite E1. eexists; reflexivity.
    - apply T2. }
  destruct (N.min (r_hi o) (r_hi r) =? r_hi o).
  - rewrite E1. eexists; reflexivity.
  - match goal with |- context[remove_go f (Some ?o') _ _ _] => destruct (T2 o') as (rs2 & E2) end.
    rewrite E2. eexists; reflexivity.
Qed.

Lemma remove_ranges_total : forall (A B : Type) (m1 : rmap A) (m2 : rmap B),
  exists m, remove_ranges m1 m2 = Some m.
Proof.
  intros.
  change (remove_ranges m1 m2) with
    (remove_go (length m1 + length m2 + 1)
       (fst (nxt m1)) (snd (nxt m1)) (fst (nxt m2)) (snd (nxt m2))).
  apply rmgo_total. rewrite !nxt_len. lia.
Qed.

(* ------------------------------------------------------------------ *)
(* bracket sets: the fold of insert over the items *)

Definition cs_step (m : rmap unit) (x : cor) : rmap unit :=
  match x with
  | CChar c => insert merge_unit m c c tt
  | CRange a b' => insert merge_unit m a b' tt
  end.

Lemma cs_step_correct : forall m x,
  wf m = true -> cor_ok x = true ->
  wf (cs_step m x) = true /\ forall c, covered (cs_step m x) c = cor_mem x c || covered m c.
Proof.
  intros m x W K. destruct x as [a|a b]; cbn [cs_step cor_mem cor_ok] in *.
  - split; [apply insert_wf; [exact W|lia]|].
    intros c. rewrite insert_covered; [|exact W|lia].
    f_equal. destruct (N.eqb_spec c a).
    + subst. rewrite N.leb_refl. reflexivity.
    + destruct (N.leb_spec a c), (N.leb_spec c a); try reflexivity. lia.
  - apply N.leb_le in K. split; [apply insert_wf; assumption|].
    intros c. apply insert_covered; assumption.
Qed.

Lemma charset_fold : forall l m,
  forallb cor_ok l = true -> wf m = true ->
  wf (fold_left cs_step l m) = true /\
  forall c, covered (fold_left cs_step l m) c = covered m c || existsb (fun x => cor_mem x c) l.
Proof.
  induction l as [|x l IH]; intros m K W.
  - cbn [fold_left existsb]. split; [exact W|]. intros; rewrite orb_false_r; reflexivity.
  - cbn [forallb] in K. apply andb_true_iff in K. destruct K as [Kx Kl].
    destruct (cs_step_correct m x W Kx) as [W' C'].
    destruct (IH (cs_step m x) Kl W') as [W'' C''].
    cbn [fold_left existsb]. split; [exact W''|].
    intros c. rewrite C'', C'.
    destruct (cor_mem x c), (covered m c); reflexivity.
Qed.

(* ------------------------------------------------------------------ *)
(* one-step unfoldings of the nested fixpoints *)

Section Unfold.
Variable benv : builtin_env.

Lemma r2m_builtin : forall fuel b n,
  regex_to_range_map benv fuel b (RBuiltin n) =
  match lookup_builtin n benv with
  | None => Panic TagUnknownBuiltin
  | Some t => Ok (pairs_to_rmap t)
  end.
Proof. destruct fuel; reflexivity. Qed.

Lemma r2m_var : forall fuel b v,
  regex_to_range_map benv fuel b (RVar v) =
  match lookup_var v b with
  | None => Panic TagUnboundVar
  | Some r' => match fuel with O => Panic TagVarDepth | S f => regex_to_range_map benv f b r' end
  end.
Proof. destruct fuel; reflexivity. Qed.

Lemma r2m_char : forall fuel b c,
  regex_to_range_map benv fuel b (RChar c) = Ok (insert merge_unit [] c c tt).
Proof. destruct fuel; reflexivity. Qed.

Lemma r2m_charset : forall fuel b l,
  regex_to_range_map benv fuel b (RCharSet l) = Ok (fold_left cs_step l []).
Proof. destruct fuel; reflexivity. Qed.

Lemma r2m_any : forall fuel b,
  regex_to_range_map benv fuel b RAny = Ok (insert merge_unit [] 0 CHAR_MAX tt).
Proof. destruct fuel; reflexivity. Qed.

Lemma r2m_or : forall fuel b r1 r2,
  regex_to_range_map benv fuel b (ROr r1 r2) =
  do m1 <- regex_to_range_map benv fuel b r1;
  do m2 <- regex_to_range_map benv fuel b r2;
  match insert_ranges merge_unit m1 m2 with Some m => Ok m | None => Panic TagOutOfFuel end.
Proof. destruct fuel; reflexivity. Qed.

Lemma r2m_diff : forall fuel b r1 r2,
  regex_to_range_map benv fuel b (RDiff r1 r2) =
  do m1 <- regex_to_range_map benv fuel b r1;
  do m2 <- regex_to_range_map benv fuel b r2;
  match remove_ranges m1 m2 with Some m => Ok m | None => Panic TagOutOfFuel end.
Proof. destruct fuel; reflexivity. Qed.

Lemma r2m_notclass : forall fuel b r,
  match r with
  | RString _ | RStar _ | RPlus _ | ROpt _ | RCat _ _ | REoi => True
  | _ => False
  end ->
  regex_to_range_map benv fuel b r = Panic TagNotCharSet.
Proof. destruct fuel; destruct r; intros H; try reflexivity; destruct H. Qed.

End Unfold.

Lemma expand_var : forall fuel b v,
  expand fuel b (RVar v) =
  match lookup_var v b with
  | None => Panic TagUnboundVar
  | Some r' => match fuel with O => Panic TagVarDepth | S f => expand f b r' end
  end.
Proof. destruct fuel; reflexivity. Qed.

Lemma expand_or : forall fuel b r1 r2,
  expand fuel b (ROr r1 r2) =
  do x <- expand fuel b r1; do y <- expand fuel b r2; Ok (ROr x y).
Proof. destruct fuel; reflexivity. Qed.

Lemma expand_diff : forall fuel b r1 r2,
  expand fuel b (RDiff r1 r2) =
  do x <- expand fuel b r1; do y <- expand fuel b r2; Ok (RDiff x y).
Proof. destruct fuel; reflexivity. Qed.

Lemma expand_cat : forall fuel b r1 r2,
  expand fuel b (RCat r1 r2) =
  do x <- expand fuel b r1; do y <- expand fuel b r2; Ok (RCat x y).
Proof. destruct fuel; reflexivity. Qed.

Lemma expand_star : forall fuel b r1,
  expand fuel b (RStar r1) = do x <- expand fuel b r1; Ok (RStar x).
Proof. destruct fuel; reflexivity. Qed.

Lemma expand_plus : forall fuel b r1,
  expand fuel b (RPlus r1) = do x <- expand fuel b r1; Ok (RPlus x).
Proof. destruct fuel; reflexivity. Qed.

Lemma expand_opt : forall fuel b r1,
  expand fuel b (ROpt r1) = do x <- expand fuel b r1; Ok (ROpt x).
Proof. destruct fuel; reflexivity. Qed.

Lemma expand_leaf : forall fuel b r,
  match r with
  | RBuiltin _ | RChar _ | RString _ | RCharSet _ | RAny | REoi => True
  | _ => False
  end -> expand fuel b r = Ok r.
Proof. destruct fuel; destruct r; intros H; try reflexivity; destruct H. Qed.

(* expansion of a closed regex is the identity, whatever the fuel and bindings *)
Lemma expand_closed : forall fuel b r, closed r = true -> expand fuel b r = Ok r.
Proof.
  intros fuel b. induction r; intros C; cbn [closed] in C;
    try (apply expand_leaf; exact I); try discriminate;
    try (apply andb_true_iff in C; destruct C as [C1 C2]).
  - rewrite expand_star, IHr by assumption. reflexivity.
  - rewrite expand_plus, IHr by assumption. reflexivity.
  - rewrite expand_opt, IHr by assumption. reflexivity.
  - rewrite expand_cat, IHr1, IHr2 by assumption. reflexivity.
  - rewrite expand_or, IHr1, IHr2 by assumption. reflexivity.
  - rewrite expand_diff, IHr1, IHr2 by assumption. reflexivity.
Qed.

(* ------------------------------------------------------------------ *)
(* main theorem *)

Lemma bind_ok : forall A B (x : result A) (f : A -> result B) y,
  bind x f = Ok y -> exists a, x = Ok a /\ f a = Ok y.
Proof. intros A B [a|t] f y H; cbn in H; [eauto|discriminate]. Qed.

Lemma forallb_cor_ok : forall l,
  forallb (fun x => match x with CRange a b => (a <=? b)%N | CChar _ => true end) l
  = forallb cor_ok l.
Proof. reflexivity. Qed.

Theorem r2m_exact : forall benv fuel b r m,
  benv_wf benv ->
  regex_to_range_map benv fuel b r = Ok m ->
  exists r', expand fuel b r = Ok r' /\ is_class benv r' = true /\
    (ranges_ok r' = true -> wf m = true /\ forall c, covered m c = cmem benv r' c).
Proof.
  intros benv fuel b r m BW. revert r m.
  induction fuel as [|f IHf];
  (induction r as [n|v|a|s|l|r1 IH1|r1 IH1|r1 IH1|r1 IH1 r2 IH2|r1 IH1 r2 IH2| | |r1 IH1 r2 IH2];
   intros m H;
   try (rewrite r2m_notclass in H by exact I; discriminate)).
  (* each constructor appears twice (fuel 0 / S f); treat uniformly *)
  all: try match goal with
  | H : regex_to_range_map _ _ _ (RBuiltin ?n) = _ |- _ =>
      rewrite r2m_builtin in H;
      destruct (lookup_builtin n benv) as [t|] eqn:E; [|discriminate];
      injection H as <-;
      exists (RBuiltin n); split; [apply expand_leaf; exact I|];
      cbn [is_class cmem ranges_ok]; rewrite E; split; [reflexivity|];
      intros _; split; [apply pairs_to_rmap_wf; eapply BW; exact E|];
      intros c; apply pairs_to_rmap_covered
  | H : regex_to_range_map _ _ _ (RChar ?a) = _ |- _ =>
      rewrite r2m_char in H; injection H as <-;
      exists (RChar a); split; [apply expand_leaf; exact I|];
      split; [reflexivity|]; intros _;
      split; [apply insert_wf; [reflexivity|lia]|];
      intros c; rewrite insert_empty_covered by lia; cbn [cmem];
      destruct (N.eqb_spec c a);
        [subst; rewrite N.leb_refl; reflexivity
        |destruct (N.leb_spec a c), (N.leb_spec c a); try reflexivity; lia]
  | H : regex_to_range_map _ _ _ RAny = _ |- _ =>
      rewrite r2m_any in H; injection H as <-;
      exists RAny; split; [apply expand_leaf; exact I|];
      split; [reflexivity|]; intros _;
      split; [apply insert_wf; [reflexivity|apply N.le_0_l]|];
      intros c; rewrite insert_empty_covered by apply N.le_0_l; cbn [cmem];
      replace (0 <=? c) with true by (symmetry; apply N.leb_le, N.le_0_l); reflexivity
  | H : regex_to_range_map _ _ _ (RCharSet ?l) = _ |- _ =>
      rewrite r2m_charset in H; injection H as <-;
      exists (RCharSet l); split; [apply expand_leaf; exact I|];
      split; [reflexivity|]; cbn [ranges_ok cmem]; rewrite forallb_cor_ok; intros K;
      destruct (charset_fold l [] K eq_refl) as [W C];
      split; [exact W|]; intros c; rewrite C; reflexivity
  | H : regex_to_range_map _ _ _ (ROr ?r1 ?r2) = _ |- _ =>
      rewrite r2m_or in H;
      apply bind_ok in H; destruct H as (m1 & H1 & H);
      apply bind_ok in H; destruct H as (m2 & H2 & H);
      destruct (IH1 m1 H1) as (r1' & X1 & K1 & P1);
      destruct (IH2 m2 H2) as (r2' & X2 & K2 & P2);
      exists (ROr r1' r2'); rewrite expand_or, X1, X2;
      split; [reflexivity|]; cbn [is_class ranges_ok cmem]; rewrite K1, K2;
      split; [reflexivity|]; intros K; apply andb_true_iff in K; destruct K as [Ka Kb];
      destruct (P1 Ka) as [W1 C1]; destruct (P2 Kb) as [W2 C2];
      destruct (union_covered unit merge_unit m1 m2 W1 W2) as (m' & E & W & C);
      rewrite E in H; injection H as <-;
      split; [exact W|]; intros c; rewrite C, C1, C2; reflexivity
  | H : regex_to_range_map _ _ _ (RDiff ?r1 ?r2) = _ |- _ =>
      rewrite r2m_diff in H;
      apply bind_ok in H; destruct H as (m1 & H1 & H);
      apply bind_ok in H; destruct H as (m2 & H2 & H);
      destruct (IH1 m1 H1) as (r1' & X1 & K1 & P1);
      destruct (IH2 m2 H2) as (r2' & X2 & K2 & P2);
      exists (RDiff r1' r2'); rewrite expand_diff, X1, X2;
      split; [reflexivity|]; cbn [is_class ranges_ok cmem]; rewrite K1, K2;
      split; [reflexivity|]; intros K; apply andb_true_iff in K; destruct K as [Ka Kb];
      destruct (P1 Ka) as [W1 C1]; destruct (P2 Kb) as [W2 C2];
      destruct (diff_covered unit unit m1 m2 W1 W2) as (m' & E & W & C);
      rewrite E in H; injection H as <-;
      split; [exact W|]; intros c; rewrite C, C1, C2; reflexivity
  end.
  - (* RVar, fuel 0 *)
    rewrite r2m_var in H. destruct (lookup_var v b); discriminate.
  - (* RVar, fuel S f *)
    rewrite r2m_var in H. rewrite expand_var.
    destruct (lookup_var v b) as [r'|]; [|discriminate].
    apply IHf. exact H.
Qed.

(* closed form, no variables involved *)
Theorem r2m_exact_closed : forall benv fuel r m,
  benv_wf benv -> closed r = true -> ranges_ok r = true ->
  regex_to_range_map benv fuel [] r = Ok m ->
  is_class benv r = true /\ wf m = true /\ forall c, covered m c = cmem benv r c.
Proof.
  intros benv fuel r m BW C K H.
  destruct (r2m_exact benv fuel [] r m BW H) as (r' & X & IC & P).
  rewrite expand_closed in X by exact C. injection X as <-.
  split; [exact IC|]. apply P. exact K.
Qed.

(* conversely the function only fails on non-classes / unbound / too deep variables *)
Theorem r2m_total_on_classes : forall benv fuel r,
  closed r = true -> is_class benv r = true -> exists m, regex_to_range_map benv fuel [] r = Ok m.
Proof.
  intros benv fuel. induction r; intros C K; cbn [closed is_class] in C, K; try discriminate.
  - rewrite r2m_builtin. destruct (lookup_builtin n benv); [eexists; reflexivity|discriminate].
  - rewrite r2m_char. eexists; reflexivity.
  - rewrite r2m_charset. eexists; reflexivity.
  - apply andb_true_iff in C, K. destruct C as [C1 C2], K as [K1 K2].
    destruct (IHr1 C1 K1) as (m1 & E1). destruct (IHr2 C2 K2) as (m2 & E2).
    rewrite r2m_or, E1, E2. cbn [bind].
    destruct (insert_ranges_total unit merge_unit m1 m2) as (m & E). rewrite E.
    eexists; reflexivity.
  - rewrite r2m_any. eexists; reflexivity.
  - apply andb_true_iff in C, K. destruct C as [C1 C2], K as [K1 K2].
    destruct (IHr1 C1 K1) as (m1 & E1). destruct (IHr2 C2 K2) as (m2 & E2).
    rewrite r2m_diff, E1, E2. cbn [bind].
    destruct (remove_ranges_total unit unit m1 m2) as (m & E). rewrite E.
    eexists; reflexivity.
Qed.

(* every piece of the result is non-empty and its end points are members of the class *)
Theorem r2m_pieces : forall benv fuel r m p,
  benv_wf benv -> closed r = true -> ranges_ok r = true ->
  regex_to_range_map benv fuel [] r = Ok m -> In p m ->
  (r_lo p <= r_hi p)%N /\ cmem benv r (r_lo p) = true /\ cmem benv r (r_hi p) = true.
Proof.
  intros benv fuel r m p BW C K H I.
  destruct (r2m_exact_closed benv fuel r m BW C K H) as (_ & W & M).
  destruct (wf_endpoints_members unit m p W I) as (L & A1 & A2).
  rewrite M in A1, A2. auto.
Qed.

Print Assumptions pairs_to_rmap_wf.
Print Assumptions pairs_to_rmap_covered.
Print Assumptions r2m_exact.
Print Assumptions r2m_exact_closed.
Print Assumptions r2m_total_on_classes.
Print Assumptions r2m_pieces.
