#!/usr/bin/env python3
"""Translator: regenerates /verif/coq/gen/*.v from /repo's current sources (DESIGN.md 3.1).

GenTables.v  - the 20 static tables of char_ranges.rs and the name -> table map of builtin.rs
GenConsts.v  - MAX_GUARD_SIZE (codegen.rs), tab width and the newline/tab cases of
               lexgen_util::Lexer::next, loop bound of char_range_gen
GenOracle.v  - truth tables of the Rust predicates and unicode-width, from the independent
               enumerator harness/oracle (built and run here)

Stops with exit status 3 and a message when a pattern it relies on is no longer in the source:
it never guesses. Files are rewritten only when their content changes (keeps make incremental).
"""
import os, re, subprocess, sys

REPO = os.environ.get("LEXVERIF_REPO", "/repo")
VERIF = os.path.dirname(os.path.dirname(os.path.abspath(__file__)))
GEN = os.path.join(VERIF, "coq", "gen")
BUILD = os.path.join(VERIF, "_build")


class TranslateError(Exception):
    pass


def need(cond, msg):
    if not cond:
        raise TranslateError(msg)


def read(path):
    with open(os.path.join(REPO, path)) as f:
        return f.read()


def write_if_changed(path, content):
    old = None
    if os.path.exists(path):
        with open(path) as f:
            old = f.read()
    if old != content:
        with open(path, "w") as f:
            f.write(content)


def name_lit(s):
    return "[" + "; ".join(str(ord(c)) for c in s) + "]%N"


def pairs_lit(ps, per_line=8):
    if not ps:
        return "[]"
    items = ["(%d, %d)" % p for p in ps]
    lines = []
    for i in range(0, len(items), per_line):
        lines.append("; ".join(items[i:i + per_line]))
    return "[" + ";\n   ".join(lines) + "]%N"


def parse_tables():
    src = read("crates/lexgen/src/char_ranges.rs")
    tables = {}
    for m in re.finditer(r"pub static (\w+): \[\(u32, u32\); (\d+)\] = \[(.*?)\];", src, re.S):
        name, n, body = m.group(1), int(m.group(2)), m.group(3)
        ps = [(int(a), int(b)) for a, b in re.findall(r"\(\s*(\d+)\s*,\s*(\d+)\s*\)", body)]
        leftover = re.sub(r"\(\s*\d+\s*,\s*\d+\s*\)", "", body)
        need(re.fullmatch(r"[\s,]*", leftover) is not None,
             "char_ranges.rs: table %s contains something other than (u32, u32) literals" % name)
        need(len(ps) == n, "char_ranges.rs: table %s declares %d entries, has %d" % (name, n, len(ps)))
        tables[name] = ps
    rest = re.sub(r"pub static (\w+): \[\(u32, u32\); (\d+)\] = \[(.*?)\];", "", src, flags=re.S)
    need(rest.strip() == "", "char_ranges.rs: unrecognised content: %r" % rest.strip()[:80])
    return tables


def parse_builtin():
    src = read("crates/lexgen/src/builtin.rs")
    m = re.search(r"pub static BUILTIN_RANGES: \[\(&str, BuiltinCharRange\); (\d+)\] = \[(.*?)\];", src, re.S)
    need(m, "builtin.rs: BUILTIN_RANGES not found")
    names = re.findall(r'\(\s*"(\w+)"\s*,\s*BuiltinCharRange::(\w+)\s*\)', m.group(2))
    need(len(names) == int(m.group(1)), "builtin.rs: BUILTIN_RANGES entry count")
    g = re.search(r"pub fn get_ranges\(&self\) -> &'static \[\(u32, u32\)\] \{(.*?)\n    \}", src, re.S)
    need(g, "builtin.rs: get_ranges not found")
    arms = dict(re.findall(r"BuiltinCharRange::(\w+) => &(\w+),", g.group(1)))
    need(len(arms) == len(names), "builtin.rs: get_ranges arm count")
    return names, arms


def parse_consts():
    cg = read("crates/lexgen/src/dfa/codegen.rs")
    m = re.search(r"const MAX_GUARD_SIZE: usize = (\d+);", cg)
    need(m, "codegen.rs: MAX_GUARD_SIZE not found")
    max_guard = int(m.group(1))
    # how the threshold is used (`len() > MAX_GUARD_SIZE`: guard chain or search table) is no longer pinned
    # textually here: harness/gencode.py compares the shape of every generated guard with GenCode.mk_guard
    util = read("crates/lexgen_util/src/lib.rs")
    m = re.search(
        r"self\.current_match_end\.byte_idx \+= char\.len_utf8\(\);\s*"
        r"if char == '\\n' \{\s*"
        r"self\.current_match_end\.line \+= 1;\s*"
        r"self\.current_match_end\.col = 0;\s*"
        r"\} else if char == '\\t' \{\s*"
        r"self\.current_match_end\.col \+= (\d+);[^\n]*\s*"
        r"\} else \{\s*"
        r"self\.current_match_end\.col \+= UnicodeWidthChar::width\(char\)\.unwrap_or\(1\) as u32;\s*"
        r"\}", util)
    need(m, "lexgen_util: the location update in Lexer::next no longer has the expected shape")
    tab = int(m.group(1))
    return max_guard, tab


def component_status():
    """source shapes that only some properties depend on: {property: problem}; never fatal for the others"""
    out = {}
    gen = read("crates/char_range_gen/src/main.rs")
    if "for i in 0..=u32::from(char::MAX)" not in gen:
        out["C18"] = "char_range_gen: the loop `for i in 0..=u32::from(char::MAX)` that CharGen.v models changed"
    return out


def run_oracle():
    os.makedirs(BUILD, exist_ok=True)
    out = os.path.join(BUILD, "oracle.txt")
    crate = os.path.join(VERIF, "harness", "oracle")
    env = dict(os.environ, CARGO_NET_OFFLINE="true", CARGO_TARGET_DIR=os.path.join(BUILD, "otarget"))
    env.pop("RUSTFLAGS", None)
    r = subprocess.run(["cargo", "build", "--offline", "--release", "--quiet"], cwd=crate, env=env,
                       stdout=subprocess.PIPE, stderr=subprocess.STDOUT, text=True)
    if r.returncode != 0:
        raise TranslateError("oracle enumerator does not build:\n" + r.stdout[-2000:])
    r = subprocess.run([os.path.join(BUILD, "otarget", "release", "lexverif_oracle")],
                       stdout=subprocess.PIPE, text=True, check=True)
    with open(out, "w") as f:
        f.write(r.stdout)
    preds, widths = [], []
    for line in r.stdout.splitlines():
        parts = line.split()
        if parts[0] == "PRED":
            preds.append((parts[1], [tuple(map(int, p.split("-"))) for p in parts[2:]]))
        elif parts[0] == "WIDTH":
            for p in parts[1:]:
                rng, w = p.split(":")
                a, b = rng.split("-")
                widths.append((int(a), int(b), int(w)))
    widths.sort()
    return preds, widths


def main():
    os.makedirs(GEN, exist_ok=True)
    tables = parse_tables()
    names, arms = parse_builtin()
    max_guard, tab = parse_consts()
    preds, widths = run_oracle()

    out = ["(* GENERATED by harness/gen_coq.py from crates/lexgen/src/char_ranges.rs and builtin.rs. *)",
           "From LexVerif Require Import Base CharClass Regex.", ""]
    for tname, ps in tables.items():
        out.append("Definition T_%s : pairs :=\n  %s.\n" % (tname, pairs_lit(ps)))
    out.append("(* BUILTIN_RANGES composed with BuiltinCharRange::get_ranges *)")
    out.append("Definition builtin_table : builtin_env :=")
    ents = []
    for nm, variant in names:
        need(variant in arms, "builtin.rs: no get_ranges arm for %s" % variant)
        need(arms[variant] in tables, "char_ranges.rs: no table %s" % arms[variant])
        ents.append("   (%s (* %s *), T_%s)" % (name_lit(nm), nm, arms[variant]))
    out.append("  [" + ";\n".join(ents).lstrip() + "].\n")
    write_if_changed(os.path.join(GEN, "GenTables.v"), "\n".join(out))

    out = ["(* GENERATED by harness/gen_coq.py from codegen.rs, lexgen_util/src/lib.rs. *)",
           "From LexVerif Require Import Base.", "",
           "Definition MAX_GUARD_SIZE : nat := %d." % max_guard,
           "Definition TAB_WIDTH : N := %d%%N." % tab, ""]
    write_if_changed(os.path.join(GEN, "GenConsts.v"), "\n".join(out))

    out = ["(* GENERATED by harness/gen_coq.py from the independent enumerator harness/oracle",
           "   (char::is_* of the installed Rust standard library, unicode-xid, unicode-width). *)",
           "From LexVerif Require Import Base CharClass Regex.", ""]
    out.append("Definition oracle_table : builtin_env :=")
    ents = []
    for nm, ps in preds:
        ents.append("   (%s (* %s *),\n   %s)" % (name_lit(nm), nm, pairs_lit(ps)))
    out.append("  [" + ";\n".join(ents).lstrip() + "].\n")
    out.append("(* display width of every character whose width is not 1 *)")
    out.append("Definition width_table : list (N * N * N) :=")
    items = ["(%d, %d, %d)" % w for w in widths]
    lines = ["; ".join(items[i:i + 8]) for i in range(0, len(items), 8)]
    out.append("  [" + ";\n   ".join(lines) + "]%N.\n")
    write_if_changed(os.path.join(GEN, "GenOracle.v"), "\n".join(out))
    import json
    status = component_status()
    # the run-time library, translated method by method (GenUtil.v); a method the translator cannot read leaves the
    # last good translation in place and is reported for the properties about the run-time behaviour
    try:
        import gen_util
        util_src = read("crates/lexgen_util/src/lib.rs")
        write_if_changed(os.path.join(GEN, "GenUtil.v"), gen_util.generate(util_src))
        if "clone" in gen_util.EXTRA_METHODS or not re.search(r"#\[derive\([^)]*\bClone\b[^)]*\)\]\s*pub struct Lexer\b", util_src):
            status.setdefault("C15", "lexgen_util::Lexer is no longer cloned by #[derive(Clone)] (the model copies the "
                                     "lexer value field by field)")
    except Exception as e:           # gencode.Untranslatable and parse errors alike
        for pr in ("C01", "C03", "C04", "C05", "C06", "C07", "C08", "C09", "C10", "C14", "C15"):
            status.setdefault(pr, "lexgen_util/src/lib.rs: %s" % e)
    with open(os.path.join(GEN, "status.json"), "w") as f:
        json.dump(status, f)
    print("gen_coq: %d tables, %d builtins, MAX_GUARD_SIZE=%d, tab=%d, %d oracle predicates, %d width runs"
          % (len(tables), len(names), max_guard, tab, len(preds), len(widths)))


if __name__ == "__main__":
    try:
        main()
    except TranslateError as e:
        print("TRANSLATE-ERROR: %s" % e)
        sys.exit(3)
