#!/usr/bin/env python3
"""vcheck <Cxx> quick|thorough     - decide one property on /repo's current working tree
   vcheck replay <file>            - re-run a replay file
   vcheck setup                    - build everything once (MANIFEST.setup_cmd)

Protocol per check (DESIGN.md section 6): regenerate gen/*.v from /repo; full `make` of the Coq
development; compile props/<id>.v and read its Print Assumptions; grep for forbidden vernacular;
build /repo with hooks; run the correspondence for the property; on any difference search for a
failing input; write evidence/<id>.json; print VIOLATION lines; exit 0/1."""
import json, os, random, re, sys, time, traceback

sys.path.insert(0, os.path.dirname(os.path.abspath(__file__)))
from common import *
import checks
import checks2


RUNTIME_PROPS = ("C01", "C03", "C04", "C05", "C06", "C07", "C08", "C09", "C10", "C14", "C15")


def proof_side(prop, ctx):
    """Returns (obligations, discharged, problems, theorem names)"""
    t0 = time.time()
    info = regen()
    log(info)
    try:
        status = json.load(open(os.path.join(COQ, "gen", "status.json")))
    except (OSError, ValueError):
        status = {}
    pre = [("translator", "TRANSLATE-ERROR: " + status[prop])] if prop in status else []
    rc, out = coq_make()
    if rc != 0:
        failed = set(re.findall(r"\*\*\* \[[^\]]*?:\s*(\S+)\.vo\] Error", out)) or set(re.findall(r'File "\./(\S+)\.v"', out))
        if failed and failed <= {"theories/GenUtilProofs"}:
            # only the regenerated run-time-library theorems fail: build everything else; the properties about
            # run-time behaviour import GenUtilProofs in their props file and are reported there
            rc2, out2 = coq_make(keep_going=True)
            still = set(re.findall(r"\*\*\* \[[^\]]*?:\s*(\S+)\.vo\] Error", out2))
            if still - {"theories/GenUtilProofs"}:
                return 0, 0, [("coq-build", out2[-3000:])], []
            vo = os.path.join(COQ, "theories", "GenUtilProofs.vo")
            if os.path.exists(vo):
                os.remove(vo)          # never leave a stale proof object for the props to import
            pre.append(("lexgen_util-translation", out[-2500:])) if prop in RUNTIME_PROPS else None
        else:
            err = out[-3000:]
            return 0, 0, [("coq-build", err)], []
    bad = grep_forbidden()
    probs = list(pre)
    if bad:
        probs.append(("forbidden-vernacular", "\n".join(bad[:20])))
    if not os.path.exists(os.path.join(COQ, "props", "%s.v" % prop)):
        # no theorem file for this property yet: the check is a correspondence check only and says so
        return 0, 0, probs, []
    rc, out = props_check(prop)
    if rc is None or rc != 0:
        probs.append(("props/%s.v" % prop, (out or "")[-3000:]))
        return 0, 0, probs, []
    res = analyse_props_output(prop, out)
    obligations = len(res)
    discharged = 0
    for nm, axs in res.items():
        if axs is None:
            probs.append(("assumptions", "no Print Assumptions output for %s" % nm))
        elif [a for a in axs if a not in ALLOWED_AXIOMS]:
            probs.append(("assumptions", "%s depends on %s" % (nm, ", ".join(axs))))
        else:
            discharged += 1
    log("proof side: %d/%d theorems of props/%s.v closed (%.1fs)" % (discharged, obligations, prop, time.time() - t0))
    return obligations, discharged, probs, sorted(res)


def main():
    if len(sys.argv) >= 2 and sys.argv[1] == "setup":
        log(regen())
        rc, out = coq_make()
        if rc != 0:
            print(out[-4000:])
            sys.exit(2)
        build_lexmodel()
        build_repo()
        log("setup done")
        return 0
    if len(sys.argv) >= 3 and sys.argv[1] == "replay":
        return checks.replay(sys.argv[2])
    prop, tier = sys.argv[1], (sys.argv[2] if len(sys.argv) > 2 else os.environ.get("VERIF_TIER", "quick"))
    seed = int(os.environ.get("VERIF_SEED", "20261001"))
    t0 = time.time()
    ctx = checks.Ctx(prop, tier, seed)
    violations = []          # (replay path, has failing input)
    try:
        if os.environ.get("LEXVERIF_DEV_SKIP_PROOF"):      # development only, never in MANIFEST commands
            obligations, discharged, probs, thms = 0, 0, [], []
        else:
            try:
                obligations, discharged, probs, thms = proof_side(prop, ctx)
            except Broken as e:
                # e.g. the translator no longer recognises the source: the property is no longer shown to
                # hold; still run the correspondence (with the last generated files) to look for a failing input
                obligations, discharged, probs, thms = 0, 0, [(e.stage, e.detail)], []
        ctx.coverage.update({"obligations": obligations, "discharged": discharged,
                             "theorems": thms,
                             "checker_cmd": "cd /verif/coq && make && coqc props/%s.v (Print Assumptions); "
                                            "thorough: make clean && make && coqchk -o" % prop})
        for stage, detail in probs:
            ctx.broken(stage, detail)
        if not any(s in ("coq-build",) for s, _ in probs):
            build_lexmodel()
            if tier == "thorough":
                checks.coqchk(ctx)
            # thorough tier of the differential properties: several rounds with different generator seeds
            multi = tier == "thorough" and prop in ("C01", "C02", "C03", "C04", "C05", "C06", "C07", "C08", "C09",
                                                    "C10", "C12", "C14", "C15")
            rounds = int(os.environ.get("VERIF_ROUNDS", "4")) if multi else 1
            for r in range(rounds):
                ctx.seed = seed + 104729 * r
                checks.CHECKS[prop](ctx)
            ctx.seed = seed
            ctx.coverage.setdefault("distribution", {})["rounds"] = rounds
    except Broken as e:
        ctx.broken(e.stage, e.detail)
    except Exception as e:       # the machinery itself failed: report as broken, never silently pass
        ctx.broken("harness-exception", traceback.format_exc()[-3000:])
    rc = ctx.finish(time.time() - t0)
    return rc


if __name__ == "__main__":
    sys.exit(main())
