"""Shared machinery: paths, builds (Coq, extraction, OCaml driver, /repo with hooks), evidence,
known findings, violation reports."""
import hashlib, json, os, re, shutil, subprocess, sys, time

VERIF = os.path.dirname(os.path.dirname(os.path.abspath(__file__)))
REPO = os.environ.get("LEXVERIF_REPO", "/repo")
BUILD = os.path.join(VERIF, "_build")
COQ = os.path.join(VERIF, "coq")
TARGET = os.path.join(BUILD, "target")
OCAML = os.path.join(BUILD, "ocaml")
LEXMODEL = os.path.join(OCAML, "lexmodel")
REPLAYS = os.path.join(VERIF, "replays")
EVIDENCE = os.path.join(VERIF, "evidence")
NPROC = int(os.environ.get("LEXVERIF_JOBS", "16"))
GUARD = "lexgen_verif"

T0 = time.time()


def log(msg):
    print("[%6.1fs] %s" % (time.time() - T0, msg), flush=True)


def run(cmd, cwd=None, env=None, timeout=None, check=False, input=None):
    e = dict(os.environ)
    e["CARGO_NET_OFFLINE"] = "true"
    if env:
        e.update(env)
    r = subprocess.run(cmd, cwd=cwd, env=e, stdout=subprocess.PIPE, stderr=subprocess.STDOUT,
                       text=True, timeout=timeout, input=input, errors="replace")
    if check and r.returncode != 0:
        raise RuntimeError("command failed: %s\n%s" % (" ".join(cmd), r.stdout[-4000:]))
    return r


class Broken(Exception):
    """A proof obligation or a correspondence stage no longer checks (not necessarily a violation
    with a concrete failing input)."""

    def __init__(self, stage, detail):
        super().__init__("%s: %s" % (stage, detail))
        self.stage = stage
        self.detail = detail


# ---------------------------------------------------------------- Coq side

PROP_FILES_RE = re.compile(r"^props/(C\d+)\.v$")


def regen():
    r = run([sys.executable, os.path.join(VERIF, "harness", "gen_coq.py")])
    if r.returncode != 0:
        raise Broken("translator", r.stdout.strip()[-2000:])
    return r.stdout.strip()


def coq_make(targets=None, clean=False, keep_going=False):
    """Full .vo build through coq_makefile (never -vos). Returns the build log."""
    mk = os.path.join(COQ, "Makefile")
    if clean and os.path.exists(mk):
        run(["make", "clean"], cwd=COQ, timeout=600)
    proj = os.path.join(COQ, "_CoqProject")
    if not os.path.exists(mk) or os.path.getmtime(mk) < os.path.getmtime(proj):
        run(["coq_makefile", "-f", "_CoqProject", "-o", "Makefile"], cwd=COQ, check=True)
    cmd = ["make", "-j%d" % NPROC] + (["-k"] if keep_going else []) + (targets or [])
    r = run(cmd, cwd=COQ, timeout=3000)
    return r.returncode, r.stdout


FORBIDDEN = re.compile(
    r"\b(Admitted|admit|Axiom|Axioms|Parameter|Parameters|Conjecture|Conjectures|Hypothesis|Hypotheses|"
    r"Variable|Variables|Admit Obligations)\b|Unset\s+Guard|bypass_check|Unset\s+Positivity|"
    r"Unset\s+Universe|type-in-type|impredicative-set")


def strip_comments(src):
    out, depth, i = [], 0, 0
    while i < len(src):
        if src.startswith("(*", i):
            depth += 1
            i += 2
        elif src.startswith("*)", i) and depth > 0:
            depth -= 1
            i += 2
        else:
            if depth == 0:
                out.append(src[i])
            i += 1
    return "".join(out)


def grep_forbidden():
    """No Admitted/admit/Axiom/... anywhere in the development. Section-local Variable /
    Hypothesis / Context are allowed only inside a Section (checked by nesting)."""
    bad = []
    for root in ("theories", "props", "gen", "extract"):
        d = os.path.join(COQ, root)
        if not os.path.isdir(d):
            continue
        for fn in sorted(os.listdir(d)):
            if not fn.endswith(".v"):
                continue
            src = strip_comments(open(os.path.join(d, fn)).read())
            depth = 0
            for ln, line in enumerate(src.split("\n"), 1):
                if re.match(r"\s*Section\b", line):
                    depth += 1
                if re.match(r"\s*End\b", line) and depth > 0:
                    depth -= 1
                for m in FORBIDDEN.finditer(line):
                    w = m.group(0)
                    if w.split()[0] in ("Variable", "Variables", "Hypothesis", "Hypotheses") and depth > 0:
                        continue
                    bad.append("%s/%s:%d: %s" % (root, fn, ln, line.strip()[:100]))
    return bad


ALLOWED_AXIOMS = set()   # target: none. Anything printed by Print Assumptions must be listed here.


def parse_assumptions(build_log_or_out):
    """Returns {theorem: 'closed' | [axioms]} from the output of `Print Assumptions` commands that
    are preceded by our marker lines (see props/*.v: each is wrapped by the props runner)."""
    raise NotImplementedError


def props_check(prop_id):
    """Compile props/<id>.v afresh (so that Check/Print Assumptions output is seen on this run),
    return (obligations, discharged, details)."""
    vfile = os.path.join("props", "%s.v" % prop_id)
    path = os.path.join(COQ, vfile)
    if not os.path.exists(path):
        raise Broken("props", "%s missing" % vfile)
    # dependencies are up to date: proof_side has just run the full build (and has dealt with a failure of the
    # regenerated run-time-library theorems, which only the props files that import them depend on)
    os.makedirs(os.path.join(BUILD, "props"), exist_ok=True)
    r = run(["coqc", "-q", "-Q", "theories", "LexVerif", "-Q", "gen", "LexVerif.Gen", "-Q", "props",
             "LexVerif.Props", "-w", "-notation-overridden,-deprecated-hint-without-locality",
             "-o", os.path.join(BUILD, "props", "%s.vo" % prop_id), vfile], cwd=COQ, timeout=1800)
    return r.returncode, r.stdout


def analyse_props_output(prop_id, out):
    """props/<id>.v prints, for each pinned theorem, `Check name : stmt.` (silent on success) and
    `Print Assumptions name.`; we collect theorem names from the source and their assumption
    status from the output order."""
    src = strip_comments(open(os.path.join(COQ, "props", "%s.v" % prop_id)).read())
    names = re.findall(r"Print Assumptions\s+([\w.']+)\s*\.", src)
    chunks = re.split(r"(?m)^(?=Closed under the global context|Axioms:)", out)
    statuses = [c for c in chunks if c.startswith("Closed under") or c.startswith("Axioms:")]
    res = {}
    for i, nm in enumerate(names):
        if i < len(statuses):
            s = statuses[i]
            if s.startswith("Closed under"):
                res[nm] = []
            else:
                axs = re.findall(r"(?m)^([\w.']+)\s*:", s[len("Axioms:"):])
                res[nm] = axs
        else:
            res[nm] = None
    return res


# ---------------------------------------------------------------- extraction / OCaml

def build_lexmodel():
    """Extract the model (coqc Extract.v) and compile the OCaml driver; rebuilt when any .vo of the
    model or the driver is newer than the binary."""
    os.makedirs(OCAML, exist_ok=True)
    srcs = [os.path.join(COQ, "extract", "Extract.v"), os.path.join(COQ, "extract", "driver.ml")]
    for root in ("theories", "gen"):
        d = os.path.join(COQ, root)
        srcs += [os.path.join(d, f) for f in os.listdir(d) if f.endswith(".vo")]
    newest = max(os.path.getmtime(s) for s in srcs)
    if os.path.exists(LEXMODEL) and os.path.getmtime(LEXMODEL) >= newest:
        return
    log("extracting model and building OCaml driver")
    ex = os.path.join(COQ, "extract")
    r = run(["coqc", "-q", "-Q", "../theories", "LexVerif", "-Q", "../gen", "LexVerif.Gen", "Extract.v"],
            cwd=ex, timeout=1200)
    if r.returncode != 0:
        raise Broken("extraction", r.stdout[-3000:])
    for f in ("lexmodel.ml", "lexmodel.mli"):
        shutil.move(os.path.join(ex, f), os.path.join(OCAML, f))
    shutil.copy(os.path.join(ex, "driver.ml"), os.path.join(OCAML, "driver.ml"))
    r = run(["ocamlfind", "ocamlopt", "-O2", "-w", "-a", "lexmodel.mli", "lexmodel.ml", "driver.ml", "-o",
             "lexmodel.tmp"], cwd=OCAML, timeout=1200)
    if r.returncode != 0:
        raise Broken("ocaml-driver", r.stdout[-3000:])
    os.replace(os.path.join(OCAML, "lexmodel.tmp"), LEXMODEL)


class ModelResource(Exception):
    """the extracted model ran out of its time or memory budget on this input (the reference matcher works with
    derivatives and can blow up on highly ambiguous regexes and long inputs): not a verdict about anything"""


def _limit_as(gb):
    import resource

    def f():
        resource.setrlimit(resource.RLIMIT_AS, (gb << 30, gb << 30))
    return f


def run_lexmodel(case_text, artifacts=True, timeout=1200, mem_gb=None):
    p = os.path.join(BUILD, "cases_%d_%s.txt" % (os.getpid(), hashlib.md5(case_text.encode()).hexdigest()[:8]))
    with open(p, "w") as f:
        f.write(case_text)
    try:
        cmd = [LEXMODEL] + ([] if artifacts else ["--no-artifacts"]) + [p]
        try:
            r = subprocess.run(cmd, stdout=subprocess.PIPE, stderr=subprocess.PIPE, text=True, timeout=timeout,
                               preexec_fn=_limit_as(mem_gb) if mem_gb else None)
        except subprocess.TimeoutExpired:
            raise ModelResource("time-out after %d s" % timeout)
        if r.returncode != 0:
            if r.returncode in (-9, -6) or "out of memory" in r.stderr.lower() or "stack overflow" in r.stderr.lower():
                raise ModelResource("exit %d: %s" % (r.returncode, r.stderr[-200:]))
            raise Broken("model-driver", "exit %d: %s" % (r.returncode, r.stderr[-2000:]))
        return r.stdout
    finally:
        os.unlink(p)


# ---------------------------------------------------------------- /repo with hooks

_built = {}


def build_repo(profile="debug"):
    """cargo build of lexgen (proc macro) and lexgen_util from /repo's working tree with the
    verification cfg on. Returns paths for --extern."""
    if profile in _built:
        return _built[profile]
    env = {"RUSTFLAGS": "--cfg %s" % GUARD, "CARGO_TARGET_DIR": TARGET}
    cmd = ["cargo", "build", "--offline", "-p", "lexgen", "-p", "lexgen_util", "--message-format=json"]
    if profile == "release":
        cmd.append("--release")
    e = dict(os.environ, CARGO_NET_OFFLINE="true", **env)
    r = subprocess.run(cmd, cwd=REPO, env=e, stdout=subprocess.PIPE, stderr=subprocess.PIPE, text=True)
    if r.returncode != 0:
        raise Broken("repo-build", r.stderr[-3000:])
    paths = {}
    for line in r.stdout.splitlines():
        try:
            m = json.loads(line)
        except ValueError:
            continue
        if m.get("reason") == "compiler-artifact" and m["target"]["name"] in ("lexgen", "lexgen_util"):
            for fn in m["filenames"]:
                if fn.endswith(".so") or fn.endswith(".rlib"):
                    paths[m["target"]["name"]] = fn
    if set(paths) != {"lexgen", "lexgen_util"}:
        raise Broken("repo-build", "artifacts not found: %r" % paths)
    paths["deps"] = os.path.join(TARGET, profile, "deps")
    _built[profile] = paths
    return paths


def run_incrate_driver(crate, cmds_text, timeout=1200):
    """Runs the #[cfg(all(test, lexgen_verif))] verif_driver test of `crate` on a command file."""
    os.makedirs(BUILD, exist_ok=True)
    tag = "%d_%s" % (os.getpid(), hashlib.md5(cmds_text.encode()).hexdigest()[:8])
    cmds = os.path.join(BUILD, "cmds_%s.txt" % tag)
    outp = os.path.join(BUILD, "out_%s.txt" % tag)
    with open(cmds, "w") as f:
        f.write(cmds_text)
    env = {"RUSTFLAGS": "--cfg %s" % GUARD, "CARGO_TARGET_DIR": TARGET,
           "LEXGEN_VERIF_CMDS": cmds, "LEXGEN_VERIF_OUT": outp}
    args = ["cargo", "test", "--offline", "-p", crate]
    if crate == "lexgen":
        args.append("--lib")
    args += ["verif_driver", "--", "--exact", "verif_driver::verif_driver"]
    try:
        r = run(args, cwd=REPO, env=env, timeout=timeout)
        if r.returncode != 0 or not os.path.exists(outp):
            raise Broken("incrate-driver", "%s: %s" % (crate, r.stdout[-3000:]))
        return open(outp).read()
    finally:
        for p in (cmds, outp):
            if os.path.exists(p):
                os.unlink(p)


# ---------------------------------------------------------------- evidence, findings, replays

def load_known():
    p = os.path.join(VERIF, "known_findings.json")
    if not os.path.exists(p):
        return {"known": [], "fixed": []}
    return json.load(open(p))


def write_replay(prop, data):
    os.makedirs(REPLAYS, exist_ok=True)
    blob = json.dumps(data, sort_keys=True, indent=1)
    h = hashlib.sha1(blob.encode()).hexdigest()[:10]
    p = os.path.join(REPLAYS, "%s-%s.json" % (prop, h))
    with open(p, "w") as f:
        f.write(blob)
    return p


def write_evidence(prop, tier, seed, level, coverage, wall, violations, assumptions):
    os.makedirs(EVIDENCE, exist_ok=True)
    ev = {"property_id": prop, "tier": tier, "seed": seed, "level": level, "coverage": coverage,
          "assumptions": assumptions, "wall_s": round(wall, 2), "violations": violations}
    with open(os.path.join(EVIDENCE, "%s.json" % prop), "w") as f:
        json.dump(ev, f, indent=1, sort_keys=True)
