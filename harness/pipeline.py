"""Runs definitions through the real macro (inside rustc, with hooks) and the generated lexers
on inputs; runs the extracted model on the same cases; parses and compares artifacts
(under NFA-state-set labels) and streams."""
import os, re, shutil, subprocess, sys, time
from concurrent.futures import ThreadPoolExecutor

from common import *
import lexdef

PRELUDE = r'''
#![allow(unused, non_camel_case_types, non_snake_case, clippy::all)]
use lexgen::lexer;
use lexgen_util::{Loc, LexerErrorKind};
use std::fmt::Write as _;

#[derive(Debug, Clone, PartialEq)]
pub struct Tok(pub u32);

#[derive(Debug, Clone, Default)]
pub struct U {
    pub log: Vec<(usize, Loc, Loc, Option<char>, Option<String>)>,
    pub ctr: u32,
    pub with_str: bool,
}

fn loc(l: &Loc) -> String { format!("{} {} {}", l.byte_idx, l.line, l.col) }

fn cps(s: &str) -> String {
    if s.is_empty() { return "e".to_string(); }
    s.chars().map(|c| (c as u32).to_string()).collect::<Vec<_>>().join(",")
}

macro_rules! drive {
    ($lx:expr, $n:expr, $out:expr, $clone_at:expr) => {{
        let mut lexer = $lx;
        let limit = $n + 6;
        let mut count = 0usize;
        let mut nones = 0usize;
        let mut twin = None;
        loop {
            if count > limit { $out.push_str("I OVERRUN\n"); break; }
            if Some(count) == $clone_at { twin = Some(lexer.clone()); }
            match lexer.next() {
                None => {
                    $out.push_str("I N\n");
                    if nones >= 2 { break; }
                    nones += 1;
                }
                Some(Ok((s, Tok(k), e))) => {
                    writeln!($out, "I T {} {} {}", k, loc(&s), loc(&e)).unwrap();
                    if nones > 0 { $out.push_str("I RESURRECTED\n"); }
                }
                Some(Err(err)) => {
                    match err.kind {
                        LexerErrorKind::InvalidToken => writeln!($out, "I EI {}", loc(&err.location)).unwrap(),
                        LexerErrorKind::Custom(k) => writeln!($out, "I EC {} {}", k, loc(&err.location)).unwrap(),
                    }
                    if nones > 0 { $out.push_str("I RESURRECTED\n"); }
                }
            }
            count += 1;
        }
        for (aid, s, e, pk, txt) in lexer.0.state().log.iter() {
            writeln!($out, "I A {} {} {} {} {}", aid, loc(s), loc(e),
                match pk { None => "-".to_string(), Some(c) => (*c as u32).to_string() },
                match txt { None => "-".to_string(), Some(t) => cps(t) }).unwrap();
        }
        // the clone taken before call number $clone_at continues on its own: its remaining items
        if let Some(mut twin) = twin {
            let mut count = 0usize;
            let mut nones = 0usize;
            loop {
                if count > limit { $out.push_str("C OVERRUN\n"); break; }
                match twin.next() {
                    None => { $out.push_str("C N\n"); if nones >= 2 { break; } nones += 1; }
                    Some(Ok((s, Tok(k), e))) => writeln!($out, "C T {} {} {}", k, loc(&s), loc(&e)).unwrap(),
                    Some(Err(err)) => match err.kind {
                        LexerErrorKind::InvalidToken => writeln!($out, "C EI {}", loc(&err.location)).unwrap(),
                        LexerErrorKind::Custom(k) => writeln!($out, "C EC {} {}", k, loc(&err.location)).unwrap(),
                    },
                }
                count += 1;
            }
            for (aid, s, e, pk, txt) in twin.0.state().log.iter() {
                writeln!($out, "C A {} {} {} {} {}", aid, loc(s), loc(e),
                    match pk { None => "-".to_string(), Some(c) => (*c as u32).to_string() },
                    match txt { None => "-".to_string(), Some(t) => cps(t) }).unwrap();
            }
        }
    }};
}
'''

MAIN = r'''
fn main() {
    let args: Vec<String> = std::env::args().collect();
    let cases = std::fs::read_to_string(&args[1]).unwrap();
    let timeout_ms: u64 = args.get(2).map(|x| x.parse().unwrap()).unwrap_or(5000);
    std::panic::set_hook(Box::new(|_| {}));
    let stdout = std::io::stdout();
    for line in cases.lines() {
        // <def name> <run idx> <ctor> <clone_at or -> <cps or ->
        let parts: Vec<&str> = line.split(' ').collect();
        let name = parts[0].to_string();
        let ctor: u32 = parts[2].parse().unwrap();
        let clone_at: Option<usize> = if parts[3] == "-" { None } else { Some(parts[3].parse().unwrap()) };
        let input: String = if parts[4] == "-" { String::new() } else {
            parts[4].split(',').map(|x| char::from_u32(x.parse().unwrap()).unwrap()).collect()
        };
        let (tx, rx) = std::sync::mpsc::channel();
        let name2 = name.clone();
        std::thread::Builder::new().stack_size(64 << 20).spawn(move || {
            let res = std::panic::catch_unwind(|| {
                let mut out = String::new();
                dispatch(&name2, ctor, &input, clone_at, &mut out);
                out
            });
            let _ = tx.send(res.unwrap_or_else(|_| "I PANIC\n".to_string()));
        }).unwrap();
        let res = rx.recv_timeout(std::time::Duration::from_millis(timeout_ms))
            .unwrap_or_else(|_| "I HANG\n".to_string());
        use std::io::Write;
        let mut h = stdout.lock();
        write!(h, "RUN {} {} {}\n{}", name, parts[1], ctor, res).unwrap();
        h.flush().unwrap();
    }
}
'''


def rust_program(defs, extra_parens=None):
    """defs: list of (lexer name, definition). One module, all lexers side by side."""
    parts = [PRELUDE]
    arms = []
    for lname, d in defs:
        parts.append(lexdef.rust_lexer(lname, d, extra_parens))
        parts.append('''
fn run_%(n)s(ctor: u32, input: &str, clone_at: Option<usize>, out: &mut String) {
    let n = input.chars().count();
    match ctor {
        0 => { let mut lx = %(n)s::new(input); lx.0.state().with_str = true; drive!(lx, n, out, clone_at) }
        1 => drive!(%(n)s::new_with_state(input, U { with_str: true, ..Default::default() }), n, out, clone_at),
        2 => drive!(%(n)s::new_from_iter(input.chars().collect::<Vec<char>>().into_iter()), n, out, clone_at),
        _ => drive!(%(n)s::new_from_iter_with_state(input.chars().collect::<Vec<char>>().into_iter(), U::default()), n, out, clone_at),
    }
}
''' % {"n": lname})
        arms.append('        "%s" => run_%s(ctor, input, clone_at, out),' % (lname, lname))
    parts.append("fn dispatch(name: &str, ctor: u32, input: &str, clone_at: Option<usize>, out: &mut String) {\n"
                 "    match name {\n" + "\n".join(arms) + "\n        _ => panic!(\"no such lexer\"),\n    }\n}\n")
    parts.append(MAIN)
    return "\n".join(parts)


def _limit_memory(gb):
    """address-space limit for a child: a changed macro or generated lexer that allocates without bound
    must fail (and be reported), not take the machine down"""
    import resource

    def f():
        resource.setrlimit(resource.RLIMIT_AS, (gb << 30, gb << 30))
    return f


CPU_LIMIT_S = 60      # "within seconds": processor time of rustc (macro expansion included) for ONE small definition


def rustc_compile(src_path, out_path, dump_dir, paths, timeout=300, opt=False, cpu_limit=None):
    """cpu_limit: when given (a definition compiled alone after a time-out of its batch), the processor time of
    rustc is measured (/usr/bin/time; independent of how loaded the machine is) and a compilation that needs more
    than cpu_limit seconds of it is reported as return code -8."""
    env = dict(os.environ)
    env["LEXGEN_VERIF_DUMP"] = dump_dir
    cmd = ["rustc", "--edition", "2021", "-L", "dependency=" + paths["deps"],
           "--extern", "lexgen=" + paths["lexgen"], "--extern", "lexgen_util=" + paths["lexgen_util"],
           "-C", "debuginfo=0", src_path, "-o", out_path]
    if opt:
        cmd[1:1] = ["-O"]
    tfile = out_path + ".time"
    if cpu_limit is not None:
        cmd = ["/usr/bin/time", "-f", "%U %S", "-o", tfile] + cmd
    t0 = time.time()
    try:
        r = subprocess.run(cmd, env=env, stdout=subprocess.PIPE, stderr=subprocess.STDOUT, text=True,
                           timeout=timeout, errors="replace", preexec_fn=_limit_memory(8))
        if cpu_limit is not None and r.returncode == 0:
            try:
                cpu = sum(float(x) for x in open(tfile).read().split()[-2:])
            except (OSError, ValueError):
                cpu = 0.0
            if cpu > cpu_limit:
                return -8, "SLOW: rustc needed %.0f s of processor time for this one definition (limit %d s)" % (cpu, cpu_limit), time.time() - t0
        return r.returncode, r.stdout, time.time() - t0
    except subprocess.TimeoutExpired:
        return -9, "TIMEOUT after %ds" % timeout, time.time() - t0


class Batch:
    """A set of definitions compiled into one program."""

    def __init__(self, workdir, idx, defs):
        self.dir = os.path.join(workdir, "b%d" % idx)
        self.idx = idx
        self.defs = defs               # list of (lname, d)
        self.compile_rc = None
        self.compile_out = ""
        self.compile_s = 0.0

    def build(self, paths, extra_parens=None, timeout=300, opt=False, cpu_limit=None):
        os.makedirs(os.path.join(self.dir, "dump"), exist_ok=True)
        src = os.path.join(self.dir, "prog.rs")
        with open(src, "w") as f:
            f.write(rust_program(self.defs, extra_parens))
        self.compile_rc, self.compile_out, self.compile_s = rustc_compile(
            src, os.path.join(self.dir, "prog"), os.path.join(self.dir, "dump"), paths, timeout, opt, cpu_limit)
        return self.compile_rc == 0

    def dump(self, lname):
        p = os.path.join(self.dir, "dump", lname + ".dump")
        return open(p).read() if os.path.exists(p) else None

    def run(self, cases, timeout_ms=5000, total_timeout=600):
        """cases: list of (lname, run idx, ctor, clone_at, cps). Returns {(lname, idx): [lines]}"""
        cf = os.path.join(self.dir, "cases.txt")
        with open(cf, "w") as f:
            for lname, i, ctor, clone_at, cps in cases:
                f.write("%s %d %d %s %s\n" % (lname, i, ctor, "-" if clone_at is None else clone_at,
                                              ",".join(map(str, cps)) if cps else "-"))
        try:
            r = subprocess.run([os.path.join(self.dir, "prog"), cf, str(timeout_ms)], stdout=subprocess.PIPE,
                               stderr=subprocess.DEVNULL, text=True, timeout=total_timeout,
                               preexec_fn=_limit_memory(8))
            out = r.stdout
        except subprocess.TimeoutExpired as e:
            out = (e.stdout or b"").decode() if isinstance(e.stdout, bytes) else (e.stdout or "")
            out += "\nRUNNER-TIMEOUT\n"
        res = {}
        cur = None
        for line in out.splitlines():
            if line.startswith("RUN "):
                _, lname, i, _ctor = line.split(" ")
                cur = res.setdefault((lname, int(i)), [])
            elif cur is not None and line:
                cur.append(line)
        return res


# ------------------------------------------------------------------ dump parsing

def parse_automaton_lines(lines, i):
    """Parses `NFA n` or `DFA n` block starting at lines[i]; returns (kind, states, next index)."""
    head = lines[i].split()
    kind, n = head[0], int(head[1])
    states = []
    i += 1
    while i < len(lines) and (lines[i][:2] in ("S ", "e ", "c ", "r ", "a ", "z ")):
        ln = lines[i]
        p = ln.split()
        if p[0] == "S":
            if kind == "NFA":
                states.append({"acc": (p[2], p[3]), "e": [], "c": {}, "r": [], "a": [], "z": []})
            else:
                kv = dict(x.split("=", 1) for x in p[2:])
                states.append({"init": kv["init"] == "1", "bt": kv["bt"] == "1", "acc": kv["acc"],
                               "preds": [] if kv["preds"] == "-" else [int(x) for x in kv["preds"].split(",")],
                               "c": {}, "r": [], "a": None, "z": None})
        else:
            st = states[-1]
            if kind == "NFA":
                tgt = lambda s: [] if s == "-" else [int(x) for x in s.split(",")]
                if p[0] == "e":
                    st["e"] = tgt(p[1])
                elif p[0] == "c":
                    st["c"][int(p[1])] = tgt(p[2])
                elif p[0] == "r":
                    st["r"].append((int(p[1]), int(p[2]), tgt(p[3])))
                elif p[0] == "a":
                    st["a"] = tgt(p[1])
                elif p[0] == "z":
                    st["z"] = tgt(p[1])
            else:
                if p[0] == "c":
                    st["c"][int(p[1])] = p[2]
                elif p[0] == "r":
                    st["r"].append((int(p[1]), int(p[2]), p[3]))
                elif p[0] == "a":
                    st["a"] = p[1]
                elif p[0] == "z":
                    st["z"] = p[1]
        i += 1
    if len(states) != n:
        raise Broken("dump-parse", "%s block declares %d states, has %d" % (kind, n, len(states)))
    return kind, states, i


def parse_dump(text):
    """Returns a dict with keys: ast (list of lines), ctxs [ {nfa, map, dfa} ], rulesets [ {name, nfa,
    map, dfa} ], joined, simplified, entries {name: idx}, inlined [..], arms [(orig, pat)],
    switch {name: idx}, tokens (str or None), panic (tag or None), wf, runs {idx: {'M': [...], 'S': [...]}}"""
    lines = text.split("\n")
    res = {"ast": [], "ctxs": [], "rulesets": [], "joined": None, "simplified": None, "entries": {},
           "inlined": None, "arms": [], "switch": {}, "tokens": None, "panic": None, "wf": None, "runs": {}}
    i = 0
    pending_name = None
    cur_run = None
    while i < len(lines):
        ln = lines[i]
        if not ln:
            i += 1
            continue
        p = ln.split(" ")
        k = p[0]
        if k == "AST":
            res["ast"].append(ln[4:])
            i += 1
        elif k == "RULESET":
            pending_name = p[1]
            i += 1
        elif k in ("RSBEGIN", "CTXBEGIN"):
            blk = {"name": pending_name if k == "RSBEGIN" else None}
            i += 1
            _, blk["nfa"], i = parse_automaton_lines(lines, i)
            if not lines[i].startswith("STATEMAP"):
                raise Broken("dump-parse", "STATEMAP expected, got %r" % lines[i])
            n = int(lines[i].split()[1])
            m = {}
            for j in range(n):
                q = lines[i + 1 + j].split()
                m[int(q[1])] = q[2]
            i += 1 + n
            blk["map"] = m
            _, blk["dfa"], i = parse_automaton_lines(lines, i)
            if lines[i] not in ("RSEND", "CTXEND"):
                raise Broken("dump-parse", "RSEND/CTXEND expected, got %r" % lines[i])
            i += 1
            (res["rulesets"] if k == "RSBEGIN" else res["ctxs"]).append(blk)
        elif k == "BACKTRACK":
            _, res["joined"], i = parse_automaton_lines(lines, i + 1)
        elif k == "SIMPLIFIED":
            _, res["simplified"], i = parse_automaton_lines(lines, i + 1)
        elif k == "ENTRY":
            res["entries"][p[1]] = int(p[2])
            i += 1
        elif k == "INLINED":
            res["inlined"] = [] if p[1] == "-" else [int(x) for x in p[1].split(",")]
            i += 1
        elif k == "ARM":
            res["arms"].append((int(p[1]), p[2].strip()))
            i += 1
        elif k == "SWITCH":
            res["switch"][p[1]] = int(p[2])
            i += 1
        elif k == "TOKENS":
            res["tokens"] = ln[7:]
            i += 1
        elif k == "EXPANSION_CPU_MS":
            res["expansion_cpu_ms"] = int(p[1])
            i += 1
        elif k == "GCODE":
            res.setdefault("gcode", []).append(ln)
            i += 1
        elif k == "PANIC":
            res["panic"] = p[1]
            i += 1
        elif k == "WF":
            res["wf"] = p[1] == "1"
            i += 1
        elif k == "MODELCERTS":
            res["modelcerts"] = p[1] == "1"
            i += 1
        elif k == "RUN":
            cur_run = res["runs"].setdefault(int(p[1]), {"M": [], "S": []})
            i += 1
        elif k in ("M", "S") and cur_run is not None:
            cur_run[k].append(ln[2:])
            i += 1
        elif k in ("DEF", "ENDDEF"):
            i += 1
        elif k == "DRIVER-ERROR":
            raise Broken("model-driver", ln)
        else:
            raise Broken("dump-parse", "unexpected line %r" % ln[:100])
    return res


def split_model_output(text):
    """{def id: parsed}"""
    out = {}
    cur_id, buf = None, []
    for ln in text.split("\n"):
        if ln.startswith("DEF "):
            cur_id, buf = ln[4:], []
        elif ln == "ENDDEF":
            out[cur_id] = "\n".join(buf)
            cur_id = None
        elif cur_id is not None:
            buf.append(ln)
    return out


# ------------------------------------------------------------------ canonical forms under labels

def canon_dfa(dfa, smap, unit=False):
    """DFA (from nfa_to_dfa) -> {label: state description with targets as labels}"""
    lab = lambda t: smap[int(t[1:])]
    out = {}
    for idx, st in enumerate(dfa):
        out[smap[idx]] = {
            "init": st["init"], "acc": st["acc"],
            "preds": sorted(smap[p] for p in st["preds"]),
            "c": {c: lab(t) for c, t in st["c"].items()},
            "r": [(lo, hi, lab(t)) for lo, hi, t in st["r"]],
            "a": lab(st["a"]) if st["a"] else None,
            "z": lab(st["z"]) if st["z"] else None,
        }
    return out


def joined_labels(parsed):
    """label of every state of the joined DFA: 'rs<k>:<nfa set>'"""
    labels = []
    for k, rs in enumerate(parsed["rulesets"]):
        for idx in range(len(rs["dfa"])):
            labels.append("rs%d:%s" % (k, rs["map"][idx]))
    return labels


def canon_joined(parsed):
    labels = joined_labels(parsed)
    dfa = parsed["joined"]
    if len(labels) != len(dfa):
        raise Broken("joined-dfa", "joined DFA has %d states, rule set DFAs have %d" % (len(dfa), len(labels)))
    lab = lambda t: labels[int(t[1:])]
    out = {}
    for idx, st in enumerate(dfa):
        out[labels[idx]] = {
            "init": st["init"], "bt": st["bt"], "acc": st["acc"],
            "preds": sorted(labels[p] for p in st["preds"]),
            "c": {c: lab(t) for c, t in st["c"].items()},
            "r": [(lo, hi, lab(t)) for lo, hi, t in st["r"]],
            "a": lab(st["a"]) if st["a"] else None,
            "z": lab(st["z"]) if st["z"] else None,
        }
    return out, labels


def simplified_labels(parsed):
    """labels of the simplified DFA's states: the kept states of the joined DFA, in order"""
    labels = joined_labels(parsed)
    kept = []
    for idx, st in enumerate(parsed["joined"]):
        empty = not st["c"] and not st["r"] and st["a"] is None and st["z"] is None
        if not (empty and not st["init"]):
            kept.append(labels[idx])
    return kept


def canon_simplified(parsed):
    kept = simplified_labels(parsed)
    dfa = parsed["simplified"]
    if len(kept) != len(dfa):
        raise Broken("simplified-dfa", "simplified DFA has %d states, %d kept states expected" % (len(dfa), len(kept)))
    lab = lambda t: t if t.startswith("A[") else kept[int(t[1:])]
    out = {}
    for idx, st in enumerate(dfa):
        out[kept[idx]] = {
            "init": st["init"], "bt": st["bt"], "acc": st["acc"],
            "preds": sorted(kept[p] for p in st["preds"]),
            "c": {c: lab(t) for c, t in st["c"].items()},
            "r": [(lo, hi, lab(t)) for lo, hi, t in st["r"]],
            "a": lab(st["a"]) if st["a"] else None,
            "z": lab(st["z"]) if st["z"] else None,
        }
    return out, kept


def dispatch_certificate(parsed):
    """prog_ok on a dump (implementation's or model's): every value that generated code stores into
    __state selects the arm of the intended state. Returns list of problems."""
    probs = []
    kept = simplified_labels(parsed)
    dfa = parsed["simplified"]
    inl = parsed["inlined"]
    arms = parsed["arms"]
    if inl is None:
        return ["INLINED line missing"]
    renum = lambda s: s - len([e for e in inl if e < s])

    def arm_lookup(v):
        for orig, pat in arms:
            if pat == "_" or int(pat) == v:
                return orig
        return None
    # inlined = states with exactly one predecessor, reached from it through exactly one kind of arm
    def n_arms_to(pst, s):
        t = "t%d" % s
        return int(any(v == t for v in pst["c"].values())) + int(any(x[2] == t for x in pst["r"])) + int(pst["a"] == t)
    want_inl = [i for i, st in enumerate(dfa)
                if len(st["preds"]) == 1 and st["preds"][0] < len(dfa) and n_arms_to(dfa[st["preds"][0]], i) == 1]
    # Which states are inlined is a code-generation policy, not part of any property: a different
    # policy is not reported. What must hold for ANY policy: an inlined state has a predecessor to be
    # inlined into and is not an initial state (those are entered through __state), and every
    # state that is not inlined is reachable through its own arm (below).
    for s in inl:
        if s >= len(dfa) or dfa[s]["init"] or not dfa[s]["preds"]:
            probs.append("state %d is marked inlined but is initial or has no predecessor" % s)
    parsed["inlining_policy_differs"] = sorted(inl) != want_inl
    for s, st in enumerate(dfa):
        if s in inl:
            continue
        got = arm_lookup(renum(s))
        if got != s:
            probs.append("value %d stored for state %d (%s) selects the arm of state %r" % (renum(s), s, kept[s], got))
    # switch table: rule set k's entry is the initial state of its own DFA
    names = [rs["name"] for rs in parsed["rulesets"]]
    for k, nm in enumerate(names):
        if nm == "-" or nm is None:
            continue
        if nm not in parsed["switch"]:
            probs.append("no switch arm for rule set %s" % nm)
            continue
        got = arm_lookup(parsed["switch"][nm])
        want_label = "rs%d:%s" % (k, parsed["rulesets"][k]["map"][0])
        if got is None or kept[got] != want_label:
            probs.append("switch(%s) stores %d which selects state %r (%s), expected the initial state %s"
                         % (nm, parsed["switch"][nm], got, kept[got] if got is not None else None, want_label))
        if nm in parsed["entries"] and kept[parsed["entries"][nm]] != want_label:
            probs.append("entry of %s after simplify is state %d (%s), expected %s"
                         % (nm, parsed["entries"][nm], kept[parsed["entries"][nm]], want_label))
    # value 0 (initial / after failure) selects Init's initial state = state 0
    if arm_lookup(0) != 0:
        probs.append("value 0 selects the arm of state %r" % arm_lookup(0))
    return probs


def decode_char_lit(x):
    if x.startswith("\\u{"):
        return int(x[3:-1], 16)
    esc = {"\\n": 10, "\\t": 9, "\\r": 13, "\\0": 0, "\\\\": 92, "\\'": 39, '\\"': 34}
    if x in esc:
        return esc[x]
    return ord(x)


def tables_certificate(parsed):
    """every generated search table `static <L>_RANGE_TABLE_n: [(char, char); k]` must be sorted, disjoint and
    non-inverted: the hypothesis pairs_wf of CharClassProofs.binary_search_in_pairs. Returns problems."""
    toks = parsed.get("tokens") or ""
    probs = []
    n = 0
    for m in re.finditer(r"static (\w+) ?: ?\[\(char ?, ?char\) ?; ?(\d+)(?:usize)?\] ?= ?\[(.*?)\] ?;", toks):
        name, cnt, body = m.group(1), int(m.group(2)), m.group(3)
        pairs = re.findall(r"\('((?:\\.[^']*|[^'\\]))' ?, ?'((?:\\.[^']*|[^'\\]))'\)", body)
        n += 1
        if len(pairs) != cnt:
            probs.append("table %s declares %d entries, %d parsed" % (name, cnt, len(pairs)))
            continue
        prev = -1
        for a, b in pairs:
            lo, hi = decode_char_lit(a), decode_char_lit(b)
            if lo > hi or lo <= prev:
                probs.append("table %s is not sorted/disjoint at (%d, %d) after %d" % (name, lo, hi, prev))
                break
            prev = hi
    parsed["n_tables"] = n
    return probs


def template_certificate(parsed):
    """Statement order of the generated next(), as Runtime.v assumes it (read from the dumped token stream):
    (1) the end-of-input branch of every state sets __done before doing anything else (Runtime.run_state:
        set_done before the eoi action); (2) every action selected directly (not through backtrack()) is
        preceded by reset_accepting_state() (Runtime.do_accept: set_last l None before run_action)."""
    toks = parsed.get("tokens")
    if not toks:
        return []
    t = re.sub(r"\s+", " ", toks)
    probs = []
    n1 = n2 = 0
    for m in re.finditer(r"match self ?\. ?0 ?\. ?next ?\( ?\) ?\{ ?None ?=> ?\{ ?", t):
        n1 += 1
        if not re.match(r"self ?\. ?0 ?\. ?__done ?= ?true ?;", t[m.end():m.end() + 40]):
            probs.append("an end-of-input branch does not start with `self.0.__done = true;`: ...%s" % t[m.end():m.end() + 60])
            break
    for m in re.finditer(r"match (\w+_ACTION_\d+) ?\( ?self ?\)", t):
        n2 += 1
        before = t[max(0, m.start() - 60):m.start()]
        if not re.search(r"self ?\. ?0 ?\. ?reset_accepting_state ?\( ?\) ?; ?$", before):
            probs.append("action %s is called directly without a preceding reset_accepting_state()" % m.group(1))
            break
    parsed["template_sites"] = (n1, n2)
    return probs


def flags_certificate(parsed):
    """flags_sound on a dump: flag(t) whenever an edge s -> t has flag(s) or s accepting; initial
    states unflagged is not required. Also precision (only then). Returns problems."""
    dfa = parsed["joined"]
    probs = []
    must = [False] * len(dfa)
    for s, st in enumerate(dfa):
        for t in list(st["c"].values()) + [x[2] for x in st["r"]] + [st["a"], st["z"]]:
            if t is None:
                continue
            ti = int(t[1:])
            if st["bt"] or st["acc"] != "-":
                must[ti] = True
    for t, st in enumerate(dfa):
        if must[t] and not st["bt"]:
            probs.append("state %d: some predecessor is accepting or flagged but backtrack=false" % t)
    return probs


def diff_dict(a, b, what):
    probs = []
    for k in sorted(set(a) | set(b)):
        if k not in a:
            probs.append("%s: state {%s} only in model" % (what, k))
        elif k not in b:
            probs.append("%s: state {%s} only in implementation" % (what, k))
        elif a[k] != b[k]:
            fields = [f for f in a[k] if a[k][f] != b[k].get(f)]
            probs.append("%s: state {%s} differs in %s: impl %r model %r" % (
                what, k, ",".join(fields), {f: a[k][f] for f in fields}, {f: b[k].get(f) for f in fields}))
    return probs


def dfa_iso(a, b):
    """Isomorphism of two deterministic automata (as dumped) from their initial states: same initial
    flag, accepting list, character keys, range pieces, any / end-of-input transitions, with targets in
    correspondence. Returns (mapping a-index -> b-index, None) or (None, first mismatch)."""
    if len(a) != len(b):
        return None, "%d states vs %d" % (len(a), len(b))
    mp, rev = {0: 0}, {0: 0}
    todo = [(0, 0)]

    def link(x, y, what):
        if x is None or y is None:
            return None if x is None and y is None else "%s: %r vs %r" % (what, x, y)
        xi, yi = int(x[1:]), int(y[1:])
        if xi in mp or yi in rev:
            return None if mp.get(xi) == yi and rev.get(yi) == xi else "%s: targets do not correspond (%d/%d)" % (what, xi, yi)
        mp[xi] = yi
        rev[yi] = xi
        todo.append((xi, yi))
        return None
    while todo:
        i, j = todo.pop()
        x, y = a[i], b[j]
        if x["init"] != y["init"] or x["acc"] != y["acc"]:
            return None, "state %d/%d: init/accepting %r %r vs %r %r" % (i, j, x["init"], x["acc"], y["init"], y["acc"])
        if sorted(x["c"]) != sorted(y["c"]):
            return None, "state %d/%d: character keys %r vs %r" % (i, j, sorted(x["c"]), sorted(y["c"]))
        if [(lo, hi) for lo, hi, _ in x["r"]] != [(lo, hi) for lo, hi, _ in y["r"]]:
            return None, "state %d/%d: range pieces differ" % (i, j)
        for c in sorted(x["c"]):
            e = link(x["c"][c], y["c"][c], "state %d/%d char %d" % (i, j, c))
            if e:
                return None, e
        for (lo, hi, t), (_, _, u) in zip(x["r"], y["r"]):
            e = link(t, u, "state %d/%d range %d-%d" % (i, j, lo, hi))
            if e:
                return None, e
        for k in ("a", "z"):
            e = link(x[k], y[k], "state %d/%d %s" % (i, j, k))
            if e:
                return None, e
    if len(mp) != len(a):
        return None, "unreachable states: %d of %d reached" % (len(mp), len(a))
    return mp, None


def compare_artifacts(impl, model, stages=None):
    """impl/model: parsed dumps. Returns {stage: [problems]} for stages that differ.
    Gate for the automata: the implementation's DFA of every rule set / context is isomorphic to the model's
    (whose NFA and DFA are proved correct), its flags agree under that isomorphism, and the certificates
    hold on its own dump. Differences of NFA numbering or of DFA state order alone are not reported."""
    out = {}

    def add(stage, probs):
        if probs and (stages is None or stage in stages):
            out.setdefault(stage, []).extend(probs[:6])
    isos = {}
    all_iso = len(impl["ctxs"]) == len(model["ctxs"]) and len(impl["rulesets"]) == len(model["rulesets"])
    for kind in ("ctxs", "rulesets"):
        for i, (a, b) in enumerate(zip(impl[kind], model[kind])):
            mp, why = dfa_iso(a["dfa"], b["dfa"])
            isos[(kind, i)] = mp
            if mp is None:
                all_iso = False
                add("dfa", ["%s[%d] DFA not isomorphic to the model's: %s" % (kind, i, why)])
    impl["harmless_differences"] = []
    if len(impl["ctxs"]) != len(model["ctxs"]):
        add("ctx-count", ["%d right contexts vs model %d" % (len(impl["ctxs"]), len(model["ctxs"]))])
    if len(impl["rulesets"]) != len(model["rulesets"]):
        add("ruleset-count", ["%d rule sets vs model %d" % (len(impl["rulesets"]), len(model["rulesets"]))])
    for kind in ("ctxs", "rulesets"):
        for i, (a, b) in enumerate(zip(impl[kind], model[kind])):
            nm = "%s[%d]" % (kind, i)
            nfa_probs, lab_probs = [], []
            if a["nfa"] != b["nfa"]:
                for s, (x, y) in enumerate(zip(a["nfa"], b["nfa"])):
                    if x != y:
                        nfa_probs.append("%s NFA state %d: impl %r model %r" % (nm, s, x, y))
                        break
                else:
                    nfa_probs.append("%s NFA sizes differ: %d vs %d" % (nm, len(a["nfa"]), len(b["nfa"])))
            try:
                lab_probs = diff_dict(canon_dfa(a["dfa"], a["map"]), canon_dfa(b["dfa"], b["map"]), nm + " DFA")
            except (KeyError, IndexError) as e:
                lab_probs = ["%s DFA cannot be labelled: %r" % (nm, e)]
            if isos.get((kind, i)) is not None:
                # same automaton up to the names of states: numbering / labelling differences are harmless
                impl["harmless_differences"] += nfa_probs[:1] + lab_probs[:1]
            else:
                add("nfa", nfa_probs)
                add("dfa", lab_probs)
    try:
        if all_iso and impl["joined"] is not None and model["joined"] is not None:
            # joined and simplified automata under the isomorphisms of the rule-set DFAs
            jm, off_a, off_b = {}, 0, 0
            for k in range(len(impl["rulesets"])):
                for x, y in isos[("rulesets", k)].items():
                    jm[off_a + x] = off_b + y
                off_a += len(impl["rulesets"][k]["dfa"])
                off_b += len(model["rulesets"][k]["dfa"])
            ja, jb = impl["joined"], model["joined"]
            if len(ja) != len(jb) or len(ja) != off_a:
                add("joined", ["joined DFA sizes: impl %d model %d, rule sets %d" % (len(ja), len(jb), off_a)])
            else:
                tg = lambda t: None if t is None else jm[int(t[1:])]
                for x in range(len(ja)):
                    A, B = ja[x], jb[jm[x]]
                    if A["bt"] != B["bt"]:
                        add("flags", ["joined DFA state %d (model %d): backtrack flag impl %r model %r" % (x, jm[x], A["bt"], B["bt"])])
                    if (A["init"], A["acc"], sorted(jm[p] for p in A["preds"])) != (B["init"], B["acc"], sorted(B["preds"])) \
                            or {c: tg(t) for c, t in A["c"].items()} != {c: int(t[1:]) for c, t in B["c"].items()} \
                            or [(lo, hi, tg(t)) for lo, hi, t in A["r"]] != [(lo, hi, int(t[1:])) for lo, hi, t in B["r"]] \
                            or tg(A["a"]) != (None if B["a"] is None else int(B["a"][1:])) \
                            or tg(A["z"]) != (None if B["z"] is None else int(B["z"][1:])):
                        add("joined", ["joined DFA state %d differs from the model's state %d" % (x, jm[x])])
                # simplified: kept states in order on both sides
                def kept(j):
                    return [i for i, st in enumerate(j) if not (not st["c"] and not st["r"] and st["a"] is None and st["z"] is None and not st["init"])]
                ka, kb = kept(ja), kept(jb)
                sa, sb = impl["simplified"], model["simplified"]
                if len(ka) != len(sa) or len(kb) != len(sb) or len(sa) != len(sb):
                    add("simplified", ["simplified DFA sizes: impl %d (kept %d) model %d (kept %d)" % (len(sa), len(ka), len(sb), len(kb))])
                else:
                    pos_b = {j: i for i, j in enumerate(kb)}
                    sm = {i: pos_b.get(jm[j]) for i, j in enumerate(ka)}
                    stg = lambda t: t if (t is None or t.startswith("A[")) else sm[int(t[1:])]
                    btg = lambda t: t if (t is None or t.startswith("A[")) else int(t[1:])
                    for x in range(len(sa)):
                        if sm[x] is None:
                            add("simplified", ["simplified state %d has no counterpart in the model" % x])
                            continue
                        A, B = sa[x], sb[sm[x]]
                        if (A["init"], A["bt"], A["acc"]) != (B["init"], B["bt"], B["acc"]) \
                                or {c: stg(t) for c, t in A["c"].items()} != {c: btg(t) for c, t in B["c"].items()} \
                                or [(lo, hi, stg(t)) for lo, hi, t in A["r"]] != [(lo, hi, btg(t)) for lo, hi, t in B["r"]] \
                                or stg(A["a"]) != btg(B["a"]) or stg(A["z"]) != btg(B["z"]):
                            add("simplified", ["simplified DFA state %d differs from the model's state %d" % (x, sm[x])])
        else:
            ja, _ = canon_joined(impl)
            jb, _ = canon_joined(model)
            pj = diff_dict(ja, jb, "joined DFA")
            add("flags", [p for p in pj if "differs in bt:" in p or ",bt" in p or "bt," in p])
            add("joined", [p for p in pj if "bt" not in p.split("differs in")[-1].split(":")[0]])
            sa, _ = canon_simplified(impl)
            sb, _ = canon_simplified(model)
            add("simplified", diff_dict(sa, sb, "simplified DFA"))
    except Broken as e:
        add("joined", [str(e)])
    except (KeyError, IndexError, ValueError, TypeError) as e:
        add("joined", ["cannot compare joined/simplified DFA: %r" % (e,)])
    try:
        add("dispatch", ["impl: " + p for p in dispatch_certificate(impl)])
        add("dispatch", ["model: " + p for p in dispatch_certificate(model)])
        add("flags", ["impl: " + p for p in flags_certificate(impl)])
        add("tables", ["impl: " + p for p in tables_certificate(impl)])
        add("templates", ["impl: " + p for p in template_certificate(impl)])
    except (KeyError, IndexError, ValueError, TypeError) as e:
        add("dispatch", ["certificate cannot be evaluated: %r" % (e,)])
    return out


# ------------------------------------------------------------------ stream projections

def proj_stream(lines, what):
    """Projects a run (lines without the I/M/S prefix) for one property.
    what: 'all' | 'tokens' (rule,lexeme spans) | 'errors' | 'locs' | 'log' """
    return lines


def strip_prefix(lines, pfx):
    return [l[2:] for l in lines if l.startswith(pfx + " ")]
