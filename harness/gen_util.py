"""Translator: crates/lexgen_util/src/lib.rs (the methods of `Lexer` that generated code and semantic actions
call) -> coq/gen/GenUtil.v, regenerated on every run. theories/GenUtilProofs.v (hand written, fixed) proves
each translated method equal to the operation Runtime.v uses in its place, so a change of a method's meaning
breaks a proof, while a rewrite that computes the same function (reordered assignments, renamed locals) does not.

The translator understands exactly the Rust this file is written in: field assignments and `+=` on
`self.<field>[.<loc field>]`, `if / else if / else` on `char == '<c>'`, the two `match` forms
`match self.__iter.next() {None => None, Some(char) => {..; Some(char)}}` and
`match self.last_match.take() {None => {..; Err(..)} Some((a, b, c, d)) => {..; Ok(c)}}`, struct literals `Self {..}`
and a handful of expressions. Anything else raises Untranslatable (reported as a translator failure for the
properties about the run-time library)."""
import os, re
from gencode import tokenize, char_value, Untranslatable, P

# Rust field -> (Coq projection, kind)
FIELDS = [("__state", "l_state", "nat"), ("__done", "l_done", "bool"), ("__initial_state", "l_initial", "nat"),
          ("user_state", "l_user", "user"), ("input", "l_input", "input"), ("__iter", "l_iter", "iter"),
          ("iter_loc", "l_iter_loc", "loc"), ("current_match_start", "l_mstart", "loc"),
          ("current_match_end", "l_mend", "loc"), ("last_match", "l_last", "last")]
PROJ = {f: p for f, p, _ in FIELDS}
KIND = {f: k for f, _, k in FIELDS}
LOCF = ["line", "col", "byte_idx"]          # order of Base.mkLoc


def strip_comments(src):
    src = re.sub(r"/\*.*?\*/", " ", src, flags=re.S)
    return re.sub(r"//[^\n]*", "", src)


def functions(src):
    """{name: (param tokens, body tokens)} for every `pub fn` inside an `impl ... Lexer<..>` block"""
    t = tokenize(strip_comments(src))
    out = {}
    i = 0
    while i < len(t):
        if t[i] == "impl":
            # header up to the opening brace; only impls of Lexer
            j = i
            while t[j] != "{":
                j += 1
            is_lexer = "Lexer" in t[i:j]
            depth, k = 0, j
            while True:
                if t[k] == "{":
                    depth += 1
                elif t[k] == "}":
                    depth -= 1
                    if depth == 0:
                        break
                k += 1
            if is_lexer:
                p = j + 1
                while p < k:
                    if t[p] == "fn":
                        name = t[p + 1]
                        a = p + 2
                        while t[a] != "(":
                            a += 1
                        d, b = 0, a
                        while True:
                            if t[b] == "(":
                                d += 1
                            elif t[b] == ")":
                                d -= 1
                                if d == 0:
                                    break
                            b += 1
                        params = t[a + 1:b]
                        c = b
                        while t[c] != "{":
                            c += 1
                        d, e = 0, c
                        while True:
                            if t[e] == "{":
                                d += 1
                            elif t[e] == "}":
                                d -= 1
                                if d == 0:
                                    break
                            e += 1
                        if name in out:
                            raise Untranslatable("method %s defined twice" % name)
                        out[name] = (params, t[c + 1:e])
                        p = e + 1
                    else:
                        p += 1
            i = k + 1
        else:
            i += 1
    return out


class Tr:
    def __init__(self):
        self.env = {}          # Rust local -> Coq term

    # ---------------- expressions
    def num(self, tok, kind):
        m = re.match(r"^(\d+)(usize|u32)?$", tok)
        if not m:
            raise Untranslatable("number expected, found %s" % tok)
        return m.group(1) if kind == "nat" else "%s%%N" % m.group(1)

    def expr(self, p, kind):
        """parses one expression at p; kind: expected Coq type class (nat | N | bool | loc | iter | input | user |
        last | any)"""
        tok = p.peek()
        if tok == "self":
            p.take()
            p.expect(["."])
            f = p.take()
            if f not in PROJ:
                raise Untranslatable("unknown field self.%s" % f)
            term = "(%s U l)" % PROJ[f]
            if p.peek() == ".":
                nxt = p.peek(1)
                if nxt in LOCF and KIND[f] == "loc":
                    p.take()
                    p.take()
                    return "(%s %s)" % (nxt, term)
                if nxt == "clone":
                    p.expect([".", "clone", "(", ")"])
                    return term
                if f == "__iter" and nxt == "peek":
                    p.expect([".", "peek", "(", ")", ".", "copied", "(", ")"])
                    return "(hd_error %s)" % term
            return term
        if tok == "Loc":
            p.expect(["Loc", "::", "ZERO"])
            return "loc_zero"
        if tok in ("true", "false"):
            p.take()
            return tok
        if tok == "None":
            p.take()
            return "None"
        if tok == '""':
            p.take()
            return "None"          # `input: ""`: no input text (the from_iter constructors)
        if tok == "char":
            p.take()
            if p.at([".", "len_utf8", "(", ")"]):
                p.expect([".", "len_utf8", "(", ")"])
                return "(utf8_len c)"
            return "c"
        if tok == "UnicodeWidthChar":
            p.expect(frag_("UnicodeWidthChar::width(char).unwrap_or(1) as u32"))
            return "(width c)"
        if tok == "Some":
            p.expect(["Some", "("])
            if p.peek() == "(":
                p.take()
                items = [self.expr(p, "any")]
                while p.opt(","):
                    if p.peek() == ")":
                        break
                    items.append(self.expr(p, "any"))
                p.expect([")"])
                p.opt(",")
                p.expect([")"])
                return "(Some (%s))" % ", ".join(items)
            e = self.expr(p, "any")
            p.expect([")"])
            return "(Some %s)" % e
        if tok == "(":
            p.take()
            items = [self.expr(p, "any")]
            while p.opt(","):
                if p.peek() == ")":
                    break
                items.append(self.expr(p, "any"))
            p.expect([")"])
            return "(%s)" % ", ".join(items)
        if tok == "&":
            p.take()
            if p.at(["mut", "self", ".", "user_state"]):
                p.expect(["mut", "self", ".", "user_state"])
                return "(l_user U l)"
            p.expect(["self", ".", "input", "["])
            a = self.expr(p, "N")
            p.expect([".."])
            b = self.expr(p, "N")
            p.expect(["]"])
            return "(slice_input (l_input U l) %s %s)" % (a, b)
        if re.match(r"^\d", tok or ""):
            p.take()
            return self.num(tok, "nat" if kind == "nat" else "N")
        if tok in self.env:
            p.take()
            term = self.env[tok]
            if tok == "input" and p.at([".", "chars", "(", ")", ".", "peekable", "(", ")"]):
                p.expect([".", "chars", "(", ")", ".", "peekable", "(", ")"])
                return "input"
            if tok == "iter" and p.at([".", "peekable", "(", ")"]):
                p.expect([".", "peekable", "(", ")"])
                return "iter"
            if tok == "input" and kind == "input":
                return "(Some input)"
            return term
        raise Untranslatable("expression not understood at `%s`" % " ".join(p.t[p.i:p.i + 8]))

    # ---------------- statements: each returns Coq text `let l := .. in` lines
    def setter(self, f, val):
        return "U_%s l %s" % (PROJ[f][2:], val)

    def stmts(self, p, stop):
        """translates statements until the token `stop` (not consumed); returns list of `let` lines"""
        out = []
        while p.peek() != stop and p.peek() is not None:
            tok = p.peek()
            if tok == "self":
                # assignment
                q = P(p.t, p.i)
                q.take()
                q.expect(["."])
                f = q.take()
                if f not in PROJ:
                    raise Untranslatable("unknown field self.%s" % f)
                sub = None
                if q.peek() == "." and q.peek(1) in LOCF:
                    q.take()
                    sub = q.take()
                op = q.take()
                if op not in ("=", "+") or (op == "+" and q.take() != "="):
                    # not an assignment: an expression statement ending the block
                    break
                p.i = q.i
                kind = "N" if sub else {"nat": "nat", "bool": "bool", "loc": "loc"}.get(KIND[f], KIND[f])
                val = self.expr(p, kind)
                p.expect([";"])
                if sub:
                    cur = "(%s (%s U l))" % (sub, PROJ[f])
                    newv = val if op == "=" else "(%s + %s)%%N" % (cur, val)
                    args = " ".join(newv if g == sub else "(%s (%s U l))" % (g, PROJ[f]) for g in LOCF)
                    out.append("let l := %s in" % self.setter(f, "(mkLoc %s)" % args))
                else:
                    if op == "+":
                        raise Untranslatable("`+=` on a whole field")
                    out.append("let l := %s in" % self.setter(f, val))
            elif tok == "if":
                out.append("let l := %s in" % self.if_chain(p))
            else:
                break
        return out

    def if_chain(self, p):
        p.expect(["if", "char", "=="])
        c = char_value(p.take())
        p.expect(["{"])
        thn = self.stmts(p, "}")
        p.expect(["}"])
        if p.at(["else", "if"]):
            p.take()
            els = self.if_chain(p)
        elif p.at(["else", "{"]):
            p.expect(["else", "{"])
            body = self.stmts(p, "}")
            p.expect(["}"])
            els = "(%s l)" % " ".join(body) if body else "l"
        else:
            els = "l"
        return "(if (c =? %d)%%N then (%s l) else %s)" % (c, " ".join(thn), els)


def frag_(s):
    return tokenize(s)


def method(name, params, body):
    """Coq definition text for one method"""
    tr = Tr()
    p = P(body, 0)
    hdr = "Definition util_%s (l : lexer U)" % name
    if name in ("new_with_state", "new_from_iter_with_state"):
        arg = "input" if name == "new_with_state" else "iter"
        tr.env = {arg: arg, "state": "state"}
        p.expect(["Self", "{"])
        vals = {}
        while p.peek() != "}":
            f = p.take()
            if f not in PROJ:
                raise Untranslatable("%s: unknown field %s" % (name, f))
            if p.opt(":"):
                vals[f] = tr.expr(p, KIND[f])
            else:
                vals[f] = tr.expr(P([f], 0), KIND[f]) if f in tr.env else None   # shorthand `input,`
                if vals[f] is None:
                    raise Untranslatable("%s: shorthand field %s" % (name, f))
            p.opt(",")
        if set(vals) != set(PROJ):
            raise Untranslatable("%s: fields %s" % (name, sorted(set(PROJ) ^ set(vals))))
        return ("Definition util_%s (%s : list N) (state : U) : lexer U :=\n  mkL U %s."
                % (name, arg, " ".join(vals[f] for f, _, _ in FIELDS)))
    if name in ("new", "new_from_iter"):
        arg = "input" if name == "new" else "iter"
        p.expect(frag_("Self::%s_with_state(%s, Default::default())" % (name, arg)))
        if p.peek() is not None:
            raise Untranslatable("%s: trailing tokens" % name)
        return "(* %s: Self::%s_with_state(%s, Default::default()) *)" % (name, name, arg)
    if name == "next":
        p.expect(frag_("match self.__iter.next() { None => None, Some(char) => {"))
        body_l = tr.stmts(p, "Some")
        p.expect(frag_("Some(char) } }"))
        return (hdr + " : option N * lexer U :=\n  match l_iter U l with\n  | [] => (None, l)\n  | c :: rest =>\n"
                "      let l := U_iter l rest in\n      %s\n      (Some c, l)\n  end." % "\n      ".join(body_l))
    if name == "backtrack":
        p.expect(frag_("match self.last_match.take() { None => {"))
        none_l = tr.stmts(p, "Err")
        p.expect(frag_("Err(LexerError { location:"))
        loc = tr.expr(p, "loc")
        p.expect(frag_(", kind: LexerErrorKind::InvalidToken, }) } Some(("))
        names = [p.take()]
        while p.opt(","):
            names.append(p.take())
        p.expect(frag_(")) => {"))
        if len(names) != 4:
            raise Untranslatable("backtrack: the saved match is not a 4-tuple")
        tr.env = {n: "x%d" % i for i, n in enumerate(names)}
        some_l = tr.stmts(p, "Ok")
        p.expect(["Ok", "("])
        ret = tr.expr(p, "any")
        p.expect(frag_(") } }"))
        return (hdr + " : (Loc + nat) * lexer U :=\n  match l_last U l with\n  | None =>\n      let l := U_last l None in\n"
                "      %s\n      (inl %s, l)\n  | Some (x0, x1, x2, x3) =>\n      let l := U_last l None in\n      %s\n"
                "      (inr %s, l)\n  end." % ("\n      ".join(none_l), loc, "\n      ".join(some_l), ret))
    if name == "set_accepting_state":
        tr.env = {"semantic_action_fn": "a"}
        body_l = tr.stmts(p, None)
        return "Definition util_%s (l : lexer U) (a : nat) : lexer U :=\n  %s\n  l." % (name, "\n  ".join(body_l))
    if name in ("reset_accepting_state", "reset_match"):
        body_l = tr.stmts(p, None)
        if p.peek() is not None:
            raise Untranslatable("%s: statement not understood at `%s`" % (name, " ".join(p.t[p.i:p.i + 8])))
        return hdr + " : lexer U :=\n  %s\n  l." % "\n  ".join(body_l)
    if name in ("peek", "match_loc", "match_", "state"):
        e = tr.expr(p, "any")
        if p.peek() is not None:
            raise Untranslatable("%s: trailing tokens `%s`" % (name, " ".join(p.t[p.i:p.i + 8])))
        ty = {"peek": "option N", "match_loc": "Loc * Loc", "match_": "option (list N)", "state": "U"}[name]
        return hdr + " : %s :=\n  %s." % (ty, e)
    raise Untranslatable("method %s is not one the model knows" % name)


EXTRA_METHODS = []
EXPECTED = ["new_from_iter", "new_from_iter_with_state", "new", "new_with_state", "next", "peek", "backtrack",
            "reset_accepting_state", "set_accepting_state", "reset_match", "match_", "match_loc", "state"]


def generate(src):
    fns = functions(src)
    fns.pop("map_token", None)
    missing = sorted(set(EXPECTED) - set(fns))
    if missing:
        raise Untranslatable("lexgen_util::Lexer no longer has the methods %s" % missing)
    # further methods are not called by the generated code (harness/gencode.py pins every call it makes) and are
    # ignored - except a hand-written `clone`: the model's lexer value is copied field by field (#[derive(Clone)])
    global EXTRA_METHODS
    EXTRA_METHODS = sorted(set(fns) - set(EXPECTED))
    out = ["(* GENERATED by harness/gen_util.py from crates/lexgen_util/src/lib.rs: the methods of `Lexer`, translated",
           "   statement by statement. theories/GenUtilProofs.v proves each equal to the operation Runtime.v uses. *)",
           "From LexVerif Require Import Base CharClass RangeMap Regex Nfa Dfa Codegen LexSpec Runtime.", "",
           "Section GenUtil.", "Variable width : N -> N.", "Variable U : Type.", "",
           "(* &self.input[a..b]; the from_iter constructors store \"\" *)",
           "Definition slice_input (i : option (list N)) (a b : N) : option (list N) :=",
           "  match i with Some inp => slice_bytes inp a b | None => slice_bytes [] a b end.", ""]
    for f, proj, _ in FIELDS:
        args = " ".join("v" if g == f else "(%s U l)" % pj for g, pj, _ in FIELDS)
        ty = {"nat": "nat", "bool": "bool", "user": "U", "input": "option (list N)", "iter": "list N", "loc": "Loc",
              "last": "option (Loc * list N * nat * Loc)"}[KIND[f]]
        out.append("Definition U_%s (l : lexer U) (v : %s) : lexer U := mkL U %s." % (proj[2:], ty, args))
    out.append("")
    for name in EXPECTED:
        out.append(method(name, *fns[name]))
        out.append("")
    out.append("End GenUtil.")
    return "\n".join(out) + "\n"


if __name__ == "__main__":
    import sys
    print(generate(open(sys.argv[1]).read()))
