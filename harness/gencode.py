"""Translator: the token stream the real `lexer!` macro produced (TOKENS hook) -> the syntax trees of
coq/theories/GenCode.v (gcode / setacc / guard / cxstate), and their comparison with the trees the model's
generator (GenCode.gen_program, printed by the extracted driver as `GCODE` lines) produces for the same
definition.

The translation is purely syntactic and strict: every fragment of the fixed template must be present token
for token (FRAG_* below are the templates of dfa/codegen.rs that Runtime.v / GenCode.exec give a meaning
to); anything else raises Untranslatable, which the check reports as "the generated code is no longer the
code the model describes".  Arms of one `match char` are compared as sets inside their class (literal
patterns, guarded patterns): literal patterns are pairwise distinct and the guards of one state test
disjoint ranges, so their order is immaterial; that literal arms precede guarded arms precede `_` is
checked."""
import re

TOKEN_RE = re.compile(r"""
    (?P<ws>\s+)
  | (?P<chr>'(?:\\u\{[0-9a-fA-F_]+\}|\\x[0-9a-fA-F]{2}|\\.|[^'\\])')
  | (?P<life>'[A-Za-z_][A-Za-z0-9_]*)
  | (?P<str>"(?:\\.|[^"\\])*")
  | (?P<id>[A-Za-z_][A-Za-z0-9_]*)
  | (?P<num>[0-9][A-Za-z0-9_]*)
  | (?P<p>=>|==|!=|<=|>=|\.\.=|\.\.|::|->|\|\||&&|[{}()\[\];,.:=<>&|!#*+\-/?@$%^~])
""", re.X)


class Untranslatable(Exception):
    pass


def tokenize(text):
    out, i, n = [], 0, len(text)
    while i < n:
        m = TOKEN_RE.match(text, i)
        if not m:
            raise Untranslatable("cannot tokenize at %r" % text[i:i + 40])
        i = m.end()
        if m.lastgroup != "ws":
            out.append(m.group(0))
    return out


ESC = {"n": 10, "r": 13, "t": 9, "\\": 92, "'": 39, '"': 34, "0": 0}


def char_value(tok):
    body = tok[1:-1]
    if body.startswith("\\u{"):
        return int(body[3:-1].replace("_", ""), 16)
    if body.startswith("\\x"):
        return int(body[2:], 16)
    if body.startswith("\\"):
        if body[1] not in ESC:
            raise Untranslatable("unknown escape %s" % tok)
        return ESC[body[1]]
    if len(body) != 1:
        raise Untranslatable("bad char literal %s" % tok)
    return ord(body)


def num_value(tok):
    m = re.match(r"^([0-9][0-9_]*)(usize|u32|u64|i32)?$", tok)
    if not m:
        raise Untranslatable("bad number %s" % tok)
    return int(m.group(1).replace("_", ""))


def frag(s):
    return tokenize(s)


def action_call(fn):
    return frag("match " + fn + "(self) { ::lexgen_util::SemanticActionResult::Continue => { "
                "self.0.__state = self.0.__initial_state; } "
                "::lexgen_util::SemanticActionResult::Return(res) => { self.0.__state = self.0.__initial_state; "
                "let (match_start, match_end) = self.match_loc(); self.0.reset_match(); "
                "return Some(match res { Ok(tok) => Ok((match_start, tok, match_end)), "
                "Err(err2) => Err(::lexgen_util::LexerError { location: match_start, "
                "kind: ::lexgen_util::LexerErrorKind::Custom(err2), }), }); } }")


FRAG_NEXT_HEAD = frag("fn next(&mut self) -> Option<Self::Item> { loop { if self.0.__done { return None; } "
                      "match self.0.__state {")
FRAG_NEXT_TAIL = frag("} } }")
FRAG_FAIL_BT = frag("match self.0.backtrack() { Err(err1) => { self.reset_match(); return Some(Err(err1)) } "
                    "Ok(semantic_action) =>") + action_call("semantic_action") + frag(", }")
FRAG_FAIL_ERR = frag("{ let location = self.match_loc().0; self.reset_match(); self.0.__state = 0; "
                     "self.0.__initial_state = 0; return Some(Err(::lexgen_util::LexerError { location, "
                     "kind: ::lexgen_util::LexerErrorKind::InvalidToken, })); }")
FRAG_STATE_HEAD = frag("match self.0.next() { None => { self.0.__done = true;")
FRAG_STATE_MID = frag("} Some(char) => { match char {")
FRAG_STATE_TAIL = frag("} } }")
FRAG_ITER_CLONE = frag("(self.0.__iter.clone())")
FRAG_RESET_ACC = frag("self.0.reset_accepting_state();")
FRAG_SET_ACC = frag("self.0.set_accepting_state(")
FRAG_SET_STATE = frag("self.0.__state =")
FRAG_CX_TAIL = frag("} } }")
FRAG_CX_STATE_HEAD = frag("match input.next() { None =>")
FRAG_CX_STATE_MID = frag(", Some(char) => { match char {")
FRAG_SWITCH_TAIL = frag("} self.0.__initial_state = self.0.__state; ::lexgen_util::SemanticActionResult::Continue }")


class P:
    """cursor over a token list"""

    def __init__(self, toks, i=0, name=""):
        self.t, self.i, self.name = toks, i, name

    def peek(self, k=0):
        return self.t[self.i + k] if self.i + k < len(self.t) else None

    # names the templates bind locally (patterns, `let`, closure parameters): a consistent renaming of them is not
    # a different program, so they are matched up to one bijection per generated lexer
    LOCALS = {"err1", "err2", "semantic_action", "res", "tok", "match_start", "match_end", "location", "char", "x"}
    SAME_NAME_OK = {"err1", "err2"}      # bound in disjoint scopes: may (and in the real template do) share a name
    RESERVED = {"self", "Some", "None", "Ok", "Err", "true", "false", "match", "if", "else", "return", "let", "loop",
                "fn", "mut", "usize", "state", "input", "contains", "next", "backtrack", "clone"}
    renames = None          # shared dict template name -> actual name (set by the Translator)

    def same(self, e, a):
        if e == a:
            if self.renames is None or e not in self.LOCALS:
                return True
            if e in self.renames:
                return self.renames[e] == a
            if any(v == a and not (k in self.SAME_NAME_OK and e in self.SAME_NAME_OK) for k, v in self.renames.items()):
                return False
            self.renames[e] = a
            return True
        if self.renames is None or e not in self.LOCALS or a is None or a in self.RESERVED \
                or not re.match(r"^[a-z_][a-z0-9_]*$", a):
            return False
        if e in self.renames:
            return self.renames[e] == a
        if any(v == a and not (k in self.SAME_NAME_OK and e in self.SAME_NAME_OK) for k, v in self.renames.items()):
            return False
        self.renames[e] = a
        return True

    def at(self, seq):
        if self.renames is None:
            return self.t[self.i:self.i + len(seq)] == seq
        if self.i + len(seq) > len(self.t):
            return False
        saved = dict(self.renames)
        ok = all(self.same(e, self.t[self.i + k]) for k, e in enumerate(seq))
        if not ok:
            self.renames.clear()
            self.renames.update(saved)
        return ok

    def expect(self, seq, what=""):
        if not self.at(seq):
            got = " ".join(self.t[self.i:self.i + min(len(seq), 14) + 4])
            # first differing token
            k = 0
            while k < len(seq) and self.i + k < len(self.t) and self.t[self.i + k] == seq[k]:
                k += 1
            raise Untranslatable("%s: expected `%s` (template fragment, differs at token %d `%s`), found `%s`"
                                 % (what or "fragment", " ".join(seq[:14]), k, seq[k] if k < len(seq) else "",
                                    " ".join(self.t[self.i + max(0, k - 3):self.i + k + 6])))
        self.i += len(seq)

    def take(self):
        tok = self.peek()
        if tok is None:
            raise Untranslatable("unexpected end of the token stream")
        self.i += 1
        return tok

    def opt(self, tok):
        if self.peek() == tok:
            self.i += 1
            return True
        return False


def idx_of(name, lexer, kind):
    m = re.match(r"^%s_%s_(\d+)$" % (re.escape(lexer), kind), name)
    if not m:
        raise Untranslatable("expected %s_%s_<n>, found %s" % (lexer, kind, name))
    return int(m.group(1))


class Translator:
    def __init__(self, text, lexer):
        self.lexer = lexer
        self.toks = tokenize(text)
        self.renames = {}
        self.tables = self.find_tables()

    def cursor(self, i):
        p = P(self.toks, i)
        p.renames = self.renames
        return p

    def is_guard_binder(self, p):
        """an identifier followed by `if`: the binder of a guarded arm (`x` in the template)"""
        tok = p.peek()
        return tok is not None and p.peek(1) == "if" and (tok == self.renames.get("x", "x") or
                                                           ("x" not in self.renames and re.match(r"^[a-z_][a-z0-9_]*$", tok)))

    # ---- static <L>_RANGE_TABLE_n: [(char, char); k] = [ ('a', 'b'), .. ];
    def find_tables(self):
        t, out = self.toks, {}
        for i in range(len(t) - 12):
            if t[i] == "static" and t[i + 2] == ":" and t[i + 3:i + 9] == ["[", "(", "char", ",", "char", ")"]:
                name = t[i + 1]
                p = P(t, i + 9)
                p.expect([";"])
                n = num_value(p.take())
                p.expect(["]", "=", "["])
                pairs = []
                while p.peek() == "(":
                    p.take()
                    a = char_value(p.take())
                    p.expect([","])
                    b = char_value(p.take())
                    p.expect([")"])
                    p.opt(",")
                    pairs.append((a, b))
                p.expect(["]", ";"])
                if len(pairs) != n:
                    raise Untranslatable("table %s declares %d entries, has %d" % (name, n, len(pairs)))
                out[name] = pairs
        return out

    def find(self, seq, start=0):
        t, n = self.toks, len(seq)
        for i in range(start, len(t) - n + 1):
            if t[i] == seq[0] and t[i:i + n] == seq:
                return i
        return -1

    # ---- guards
    def guard(self, p):
        """after `x if`: chain of range tests, or a binary-search call; stops before `=>`"""
        if p.peek() == "%s_BINARY_SEARCH" % self.lexer:
            p.take()
            p.expect(["(", "x", ",", "&"])
            name = p.take()
            p.expect([")"])
            if name not in self.tables:
                raise Untranslatable("binary search over an unknown table %s" % name)
            return ("table", list(self.tables[name]))
        pairs = []
        while True:
            if p.peek() == self.renames.get("x", "x"):
                p.expect(["x", "=="])
                c = char_value(p.take())
                pairs.append((c, c))
            else:
                p.expect(["("])
                a = char_value(p.take())
                p.expect(["..="])
                b = char_value(p.take())
                p.expect([")", ".", "contains", "(", "&", "x", ")"])
                pairs.append((a, b))
            if not p.opt("||"):
                break
        return ("chain", pairs)

    def char_pats(self, p):
        cs = [char_value(p.take())]
        while p.opt("|"):
            cs.append(char_value(p.take()))
        return cs

    # ---- main lexer
    def ctx_cond(self, p):
        """after `if`: <L>_RIGHT_CTX_i(self.0.__iter.clone())"""
        i = idx_of(p.take(), self.lexer, "RIGHT_CTX")
        p.expect(FRAG_ITER_CLONE, "right-context call")
        return i

    def setacc(self, p):
        if p.at(FRAG_SET_ACC):
            p.expect(FRAG_SET_ACC)
            a = idx_of(p.take(), self.lexer, "ACTION")
            p.expect([")", ";"])
            return ("sa-set", a)
        if p.peek() == "if":
            p.take()
            i = self.ctx_cond(p)
            p.expect(["{"])
            p.expect(FRAG_SET_ACC, "set_accepting_state in the branch of a right-context test")
            a = idx_of(p.take(), self.lexer, "ACTION")
            p.expect([")", "}", "else", "{"])
            els = self.setacc(p)
            p.expect(["}"])
            return ("sa-if", i, a, els)
        return ("sa-none",)

    def state(self, p):
        sa = self.setacc(p)
        p.expect(FRAG_STATE_HEAD, "state code")
        eoi = self.code(p)
        p.expect(FRAG_STATE_MID, "state code")
        cas, gas, dflt, phase = [], [], None, 0
        while True:
            tok = p.peek()
            if tok == "_":
                p.take()
                p.expect(["=>", "{"])
                dflt = self.code(p)
                p.expect(["}"])
                p.opt(",")
                break
            if self.is_guard_binder(p):
                p.expect(["x", "if"])
                g = self.guard(p)
                p.expect(["=>", "{"])
                code = self.code(p)
                p.expect(["}"])
                p.opt(",")
                gas.append((g, code))
                phase = 1
            else:
                if phase == 1:
                    raise Untranslatable("a literal character arm after a guarded arm")
                cs = self.char_pats(p)
                p.expect(["=>", "{"])
                code = self.code(p)
                p.expect(["}"])
                p.opt(",")
                cas.append((cs, code))
        p.expect(FRAG_STATE_TAIL, "state code")
        return ("state", sa, eoi, cas, gas, dflt)

    def code(self, p):
        if p.at(FRAG_SET_STATE):
            p.expect(FRAG_SET_STATE)
            n = num_value(p.take())
            p.expect([";"])
            return ("set", n)
        if p.at(["return", "None", ";"]):
            p.expect(["return", "None", ";"])
            return ("none",)
        if p.at(FRAG_FAIL_BT[:6]):
            p.expect(FRAG_FAIL_BT, "backtracking failure")
            return ("bt",)
        if p.at(FRAG_FAIL_ERR[:4]):
            p.expect(FRAG_FAIL_ERR, "InvalidToken failure")
            return ("err",)
        if p.at(FRAG_RESET_ACC):
            p.expect(FRAG_RESET_ACC)
            if p.peek() != "match":
                raise Untranslatable("reset_accepting_state() not followed by the action call")
            a = idx_of(p.peek(1), self.lexer, "ACTION")
            p.expect(action_call(p.peek(1)), "semantic action call")
            return ("act", a)
        if p.peek() == "if":
            # right-context test of test_right_ctxs, or the set_accepting_state chain in front of a state
            q = self.cursor(p.i + 1)
            self.ctx_cond(q)
            if q.peek() == "{" and q.t[q.i + 1:q.i + 1 + len(FRAG_SET_ACC)] == FRAG_SET_ACC:
                return self.state(p)
            p.take()
            i = self.ctx_cond(p)
            p.expect(["{"])
            thn = self.code(p)
            p.expect(["}", "else", "{"])
            els = self.code(p)
            p.expect(["}"])
            return ("if", i, thn, els)
        if p.at(FRAG_SET_ACC) or p.at(FRAG_STATE_HEAD[:3]):
            return self.state(p)
        raise Untranslatable("unknown statement `%s`" % " ".join(p.t[p.i:p.i + 12]))

    def arms(self):
        i = self.find(FRAG_NEXT_HEAD)
        if i < 0:
            raise Untranslatable("`fn next` with the expected head (loop / __done test / match self.0.__state) not found")
        if self.find(FRAG_NEXT_HEAD, i + 1) >= 0:
            raise Untranslatable("more than one `fn next`")
        p = self.cursor(i + len(FRAG_NEXT_HEAD))
        arms = []
        while p.peek() != "}":
            tok = p.take()
            pat = None if tok == "_" else num_value(tok)
            p.expect(["=>", "{"])
            code = self.state(p)
            p.expect(["}"])
            p.opt(",")
            arms.append((pat, code))
        p.expect(FRAG_NEXT_TAIL, "end of fn next")
        return arms

    # ---- switch
    def switch(self):
        head = frag("fn switch<A>(&mut self, rule: %sRule) -> ::lexgen_util::SemanticActionResult<A> { match rule {"
                    % self.lexer)
        i = self.find(head)
        if i < 0:
            return None
        p = self.cursor(i + len(head))
        out = []
        while p.peek() != "}":
            p.expect(["%sRule" % self.lexer, "::"])
            nm = p.take()
            p.expect(["=>"])
            p.expect(FRAG_SET_STATE)
            out.append((nm, num_value(p.take())))
            p.opt(",")
        p.expect(FRAG_SWITCH_TAIL, "end of fn switch")
        return out

    # ---- right-context functions
    def cxact(self, p):
        if p.at(["return", "true"]):
            p.expect(["return", "true"])
            return ("true",)
        if p.at(["return", "false"]):
            p.expect(["return", "false"])
            return ("false",)
        p.expect(["state", "="])
        return ("goto", num_value(p.take()))

    def cxstate(self, p):
        if p.at(["return", "true"]):
            p.expect(["return", "true"])
            return ("cx-accept",)
        p.expect(FRAG_CX_STATE_HEAD, "right-context state")
        eof = self.cxact(p)
        p.expect(FRAG_CX_STATE_MID, "right-context state")
        cas, gas, dflt, phase = [], [], None, 0
        while True:
            tok = p.peek()
            if tok == "_":
                p.expect(["_", "=>"])
                dflt = self.cxact(p)
                p.opt(",")
                break
            if self.is_guard_binder(p):
                p.expect(["x", "if"])
                g = self.guard(p)
                p.expect(["=>"])
                gas.append((g, self.cxact(p)))
                p.opt(",")
                phase = 1
            else:
                if phase == 1:
                    raise Untranslatable("a literal character arm after a guarded arm (right context)")
                cs = self.char_pats(p)
                p.expect(["=>"])
                cas.append((cs, self.cxact(p)))
                p.opt(",")
        p.expect(["}", "}", "}"], "right-context state")
        return ("cx-match", eof, cas, gas, dflt)

    def ctx_fns(self):
        out = {}
        k = 0
        while True:
            head = frag("fn %s_RIGHT_CTX_%d<I: Iterator<Item = char> + Clone>(mut input: I) -> bool { "
                        "let mut state: usize = 0; loop { match state {" % (self.lexer, k))
            i = self.find(head)
            if i < 0:
                break
            p = self.cursor(i + len(head))
            arms = []
            while p.peek() != "}":
                tok = p.take()
                pat = None if tok == "_" else num_value(tok)
                p.expect(["=>", "{"])
                arms.append((pat, self.cxstate(p)))
                p.expect(["}"])
                p.opt(",")
            p.expect(FRAG_CX_TAIL, "end of right-context function")
            out[k] = arms
            k += 1
        # no further right-context function under another numbering
        for tok in self.toks:
            m = re.match(r"^%s_RIGHT_CTX_(\d+)$" % re.escape(self.lexer), tok)
            if m and int(m.group(1)) >= k:
                raise Untranslatable("right-context function %s is used but not defined in the expected form" % tok)
        return [out[i] for i in range(k)]


    # ---- the small fixed functions around `next`: the methods semantic actions call, the constructors
    def helpers(self):
        """every helper the model gives a fixed meaning to (Runtime.run_action / lexer_new) must be present with
        exactly its template body; returns a list of problems"""
        L = self.lexer
        required = [
            ("return_", "fn return_<T>(&self, token: T) -> ::lexgen_util::SemanticActionResult<T> "
                        "{ ::lexgen_util::SemanticActionResult::Return(token) }"),
            ("switch_and_return", "fn switch_and_return<T>(&mut self, rule: %sRule, token: T) -> "
                                  "::lexgen_util::SemanticActionResult<T> { self.switch::<T>(rule); "
                                  "::lexgen_util::SemanticActionResult::Return(token) }" % L),
            ("continue_", "fn continue_<T>(&self) -> ::lexgen_util::SemanticActionResult<T> "
                          "{ ::lexgen_util::SemanticActionResult::Continue }"),
            ("state", "fn state(&mut self) -> &mut S { self.0.state() }"),
            ("reset_match", "fn reset_match(&mut self) { self.0.reset_match() }"),
            ("match_", "fn match_(&self) -> &'input str { self.0.match_() }"),
            ("match_loc", "fn match_loc(&self) -> (::lexgen_util::Loc, ::lexgen_util::Loc) { self.0.match_loc() }"),
            ("peek", "fn peek(&mut self) -> Option<char> { self.0.peek() }"),
            ("new", "fn new(input: &'input str) -> Self { %s_(::lexgen_util::Lexer::new(input)) }" % L),
            ("new_from_iter", "fn new_from_iter(iter: I) -> Self { %s_(::lexgen_util::Lexer::new_from_iter(iter)) }" % L),
        ]
        probs = []
        # the search function every `(table ..)` guard calls (CharClass.binary_search models exactly this comparator)
        if self.tables:
            required.append(("%s_BINARY_SEARCH" % L,
                             "fn %s_BINARY_SEARCH(c: char, table: &[(char, char)]) -> bool { table.binary_search_by(|(start, end)| "
                             "match c.cmp(start) { std::cmp::Ordering::Greater => { if c <= *end { std::cmp::Ordering::Equal } "
                             "else { std::cmp::Ordering::Less } } std::cmp::Ordering::Equal => std::cmp::Ordering::Equal, "
                             "std::cmp::Ordering::Less => std::cmp::Ordering::Greater, }).is_ok() }" % L))
        has_switch = self.find(frag("fn switch<A>")) >= 0
        for nm, text in required:
            if nm == "switch_and_return" and not has_switch:
                continue
            fr = frag(text)
            # visibility (`pub`) may precede fn; match from `fn`
            if self.find(fr) < 0:
                probs.append("helper `%s` is not the template's (`%s`)" % (nm, text[:90]))
        return probs

    # ---- semantic-action functions: which sugar form wraps the user's expression
    def action_kinds(self):
        """{action index: 'skip' | 'simple' | 'infallible' | 'fallible'} from `fn <L>_ACTION_n`"""
        out = {}
        t = self.toks
        for i, tok in enumerate(t):
            m = re.match(r"^%s_ACTION_(\d+)$" % re.escape(self.lexer), tok)
            if not m or i == 0 or t[i - 1] != "fn":
                continue
            # the body: `{ let action : fn(..) -> .. = RHS ; action ( lexer ) }`
            j = i
            while j < len(t) and t[j] != "{":
                j += 1
            if t[j + 1:j + 4] != ["let", "action", ":"]:
                raise Untranslatable("semantic action function %s does not start with `let action:`" % tok)
            k = j
            depth = 0
            # find the `=` that ends the type annotation: first `=` at depth 0 that is not part of `=>`/`==`
            k = j + 4
            while not (t[k] == "=" and depth == 0):
                if t[k] in "(<[":
                    depth += 1
                elif t[k] in ")>]":
                    depth -= 1
                elif t[k] == "->":
                    pass
                k += 1
            rhs = t[k + 1:k + 60]
            txt = " ".join(rhs)
            if rhs[0] == "|" and "__lexer" in rhs[1] and ". reset_match ( ) ; __lexer . continue_ ( ) . map_token ( Ok )" in " ".join(t[k + 1:k + 80]):
                kind = "skip"
            elif rhs[0] == "|" and rhs[1] == "__lexer" and "| __lexer . return_ (" in " ".join(t[k + 1:k + 80]):
                kind = "simple"
            elif rhs[0] == "|" and rhs[1] == "__lexer" and "let semantic_action :" in " ".join(t[k + 1:k + 80]):
                kind = "infallible"
            else:
                kind = "fallible"
            out[int(m.group(1))] = kind
        return out


# ---------------------------------------------------------------------------------------------
# model side: S-expressions printed by the extracted driver

def parse_sexp(s):
    toks = re.findall(r"\(|\)|[^\s()]+", s)
    pos = [0]

    def go():
        tok = toks[pos[0]]
        pos[0] += 1
        if tok == "(":
            out = []
            while toks[pos[0]] != ")":
                out.append(go())
            pos[0] += 1
            return out
        return tok
    v = go()
    if pos[0] != len(toks):
        raise ValueError("trailing input in S-expression")
    return v


def pairs_of(items):
    out = []
    for it in items:
        a, b = it.split("-")
        out.append((int(a), int(b)))
    return out


def m_guard(x):
    return (x[0], pairs_of(x[1:]))


def m_setacc(x):
    if x[0] == "sa-none":
        return ("sa-none",)
    if x[0] == "sa-set":
        return ("sa-set", int(x[1]))
    return ("sa-if", int(x[1]), int(x[2]), m_setacc(x[3]))


def m_code(x):
    h = x[0]
    if h == "set":
        return ("set", int(x[1]))
    if h in ("none", "bt", "err"):
        return (h,)
    if h == "act":
        return ("act", int(x[1]))
    if h == "if":
        return ("if", int(x[1]), m_code(x[2]), m_code(x[3]))
    if h == "state":
        return ("state", m_setacc(x[1]), m_code(x[2]), [([int(c) for c in a[0]], m_code(a[1])) for a in x[3]],
                [(m_guard(a[0]), m_code(a[1])) for a in x[4]], m_code(x[5]))
    raise ValueError("unknown model code %r" % (h,))


def m_cxact(x):
    return ("goto", int(x[1])) if x[0] == "goto" else (x[0],)


def m_cxstate(x):
    if x[0] == "cx-accept":
        return ("cx-accept",)
    return ("cx-match", m_cxact(x[1]), [([int(c) for c in a[0]], m_cxact(a[1])) for a in x[2]],
            [(m_guard(a[0]), m_cxact(a[1])) for a in x[3]], m_cxact(x[4]))


def parse_model_gcode(lines):
    """lines: the `GCODE ...` lines of one definition -> (arms, ctx fns) or raises ValueError"""
    arms, ctxs = [], {}
    for l in lines:
        parts = l.split(" ", 3)
        if parts[1] == "PANIC":
            raise ValueError("the model's generator failed: %s" % l)
        if parts[1] == "ARM":
            pat = None if parts[2] == "_" else int(parts[2])
            arms.append((pat, m_code(parse_sexp(parts[3]))))
        elif parts[1] == "CTX":
            _, _, i, rest = l.split(" ", 3)
            pat, sx = rest.split(" ", 1)
            ctxs.setdefault(int(i), []).append((None if pat == "_" else int(pat), m_cxstate(parse_sexp(sx))))
    return arms, [ctxs[i] for i in sorted(ctxs)]


# ---------------------------------------------------------------------------------------------
# canonical forms and comparison

def canon_guard(g):
    kind, pairs = g
    return (kind, tuple(sorted(pairs)) if kind == "chain" else tuple(pairs))


def canon_code(c):
    if c[0] == "if":
        return ("if", c[1], canon_code(c[2]), canon_code(c[3]))
    if c[0] == "state":
        cas = sorted((tuple(sorted(cs)), canon_code(code)) for cs, code in c[3])
        gas = sorted((canon_guard(g), canon_code(code)) for g, code in c[4])
        return ("state", c[1], canon_code(c[2]), tuple(cas), tuple(gas), canon_code(c[5]))
    return c


def canon_cxstate(s):
    if s[0] == "cx-accept":
        return s
    return ("cx-match", s[1], tuple(sorted((tuple(sorted(cs)), a) for cs, a in s[2])),
            tuple(sorted((canon_guard(g), a) for g, a in s[3])), s[4])


def first_difference(a, b, path="code"):
    """human-readable location of the first difference between two canonical trees"""
    if a == b:
        return None
    if isinstance(a, tuple) and isinstance(b, tuple) and a and b and isinstance(a[0], str) and a[0] == b[0] \
            and len(a) == len(b):
        for k in range(1, len(a)):
            d = first_difference(a[k], b[k], "%s/%s[%d]" % (path, a[0], k))
            if d:
                return d
    if isinstance(a, tuple) and isinstance(b, tuple) and len(a) == len(b) and not (a and isinstance(a[0], str)):
        for k in range(len(a)):
            d = first_difference(a[k], b[k], "%s.%d" % (path, k))
            if d:
                return d
    sa, sb = repr(a), repr(b)
    return "%s: generated code has %s, the model's generator gives %s" % (path, sa[:300], sb[:300])


def compare(tokens_text, lexer, model_gcode_lines, model_switch, kinds=None):
    """Returns a list of problems (empty: the generated code is exactly the code GenCode.gen_program describes).
    kinds: optional {action index: 'skip'|'simple'|'infallible'|'fallible'} expected from the definition."""
    try:
        tr = Translator(tokens_text, lexer)
        arms = tr.arms()
        ctxs = tr.ctx_fns()
        sw = tr.switch()
        helper_probs = tr.helpers()
        got_kinds = tr.action_kinds()
    except (Untranslatable, IndexError) as e:
        return ["generated code is not an instance of the template the model describes: %s" % e]
    try:
        m_arms, m_ctxs = parse_model_gcode(model_gcode_lines)
    except ValueError as e:
        return [str(e)]
    probs = list(helper_probs)
    if kinds is not None and got_kinds != kinds:
        bad = sorted(k for k in set(kinds) | set(got_kinds) if kinds.get(k) != got_kinds.get(k))
        probs.append("semantic-action wrappers: action %s is generated as %r, the definition says %r"
                     % (bad[0], got_kinds.get(bad[0]), kinds.get(bad[0])))
    if [p for p, _ in arms] != [p for p, _ in m_arms]:
        probs.append("arm patterns of `match self.0.__state`: generated %r, model %r"
                     % ([p for p, _ in arms], [p for p, _ in m_arms]))
    else:
        for (pat, code), (_, mcode) in zip(arms, m_arms):
            d = first_difference(canon_code(code), canon_code(mcode), "arm %s" % ("_" if pat is None else pat))
            if d:
                probs.append(d)
                break
    if len(ctxs) != len(m_ctxs):
        probs.append("%d right-context functions generated, the model has %d" % (len(ctxs), len(m_ctxs)))
    else:
        for i, (fn, mfn) in enumerate(zip(ctxs, m_ctxs)):
            if [p for p, _ in fn] != [p for p, _ in mfn]:
                probs.append("right context %d: arm patterns %r vs model %r" % (i, [p for p, _ in fn], [p for p, _ in mfn]))
                break
            for (pat, st), (_, mst) in zip(fn, mfn):
                d = first_difference(canon_cxstate(st), canon_cxstate(mst),
                                     "right context %d arm %s" % (i, "_" if pat is None else pat))
                if d:
                    probs.append(d)
                    break
    if sw is not None or model_switch:
        if sw is None:
            probs.append("`fn switch` with the expected shape not found")
        elif sorted(sw) != sorted(model_switch) or len(set(n for n, _ in sw)) != len(sw):
            probs.append("`fn switch` stores %r, the model %r" % (sorted(sw), sorted(model_switch)))
    return probs
