"""Differential execution of generated lexers: real macro + generated code vs model vs Spec."""
import json, os, shutil, time
from concurrent.futures import ThreadPoolExecutor

from common import *
import lexdef
import pipeline
from pipeline import Batch, parse_dump, split_model_output, compare_artifacts


def load_width_table():
    tbl = []
    p = os.path.join(BUILD, "oracle.txt")
    for line in open(p):
        parts = line.split()
        if parts and parts[0] == "WIDTH":
            for x in parts[1:]:
                rng, w = x.split(":")
                a, b = rng.split("-")
                tbl.append((int(a), int(b), int(w)))
    tbl.sort()
    return tbl


_wt = None


def char_width(c):
    global _wt
    if _wt is None:
        _wt = load_width_table()
    import bisect
    i = bisect.bisect_right(_wt, (c, 0x7fffffff, 0)) - 1
    if i >= 0 and _wt[i][0] <= c <= _wt[i][1]:
        return _wt[i][2]
    return 1


def utf8_len(c):
    return 1 if c < 0x80 else 2 if c < 0x800 else 3 if c < 0x10000 else 4


def scan_locs(cps):
    """independent recomputation: byte index -> (line, col) for every character boundary"""
    locs = {0: (0, 0)}
    b, l, c = 0, 0, 0
    for cp in cps:
        b += utf8_len(cp)
        if cp == 10:
            l, c = l + 1, 0
        elif cp == 9:
            c += 4
        else:
            c += char_width(cp)
        locs[b] = (l, c)
    return locs


class Case:
    def __init__(self, idx, d, inputs):
        self.idx = idx
        self.name = "L%d" % idx
        self.d = d
        self.inputs = inputs          # list of (ctor, cps, clone_at)
        self.model = None             # parsed model output
        self.impl = None              # parsed dump
        self.impl_runs = {}           # run idx -> lines
        self.impl_raw = None          # raw dump text
        self.certs = None             # list of CERT lines (dicts)
        self.compile_error = None


def run_model(cases, artifacts=True):
    text = "".join(lexdef.case_text(c.name, c.d, [(ct, cps) for ct, cps, _ in c.inputs]) for c in cases)
    # shard over processes
    shards = [[] for _ in range(min(NPROC, max(1, len(cases) // 4)))]
    for i, c in enumerate(cases):
        shards[i % len(shards)].append(c)

    def text_of(cs):
        return "".join(lexdef.case_text(c.name, c.d, [(ct, cps) for ct, cps, _ in c.inputs]) for c in cs)

    def work(shard):
        try:
            return run_lexmodel(text_of(shard), artifacts=artifacts, timeout=600, mem_gb=4)
        except ModelResource:
            return None
    with ThreadPoolExecutor(len(shards)) as ex:
        outs = list(ex.map(work, shards))
    retry = [c for shard, out in zip(shards, outs) if out is None for c in shard]
    if retry:
        # a shard ran out of time or memory: every definition of it alone, with a small budget; those that still
        # exceed it are left without a model result (c.model_skipped) and are not compared
        def one(c):
            try:
                return run_lexmodel(text_of([c]), artifacts=artifacts, timeout=40, mem_gb=3)
            except ModelResource as e:
                c.model_skipped = str(e)
                return ""
        with ThreadPoolExecutor(NPROC) as ex:
            outs = [o for o in outs if o is not None] + list(ex.map(one, retry))
    byidx = {c.idx: c for c in cases}
    for out in outs:
        if not out:
            continue
        for did, body in split_model_output(out).items():
            c = byidx.get(int(did[1:]))
            if c is not None:
                c.model = parse_dump(body)
    nskip = 0
    for c in cases:
        if c.model is None:
            if getattr(c, "model_skipped", None):
                nskip += 1
                c.model = {"panic": "model-resource-limit", "wf": False, "runs": {}, "skipped": True}
            else:
                raise Broken("model-driver", "no model output for %s" % c.name)
    if nskip > max(3, len(cases) // 25):
        raise Broken("model-driver", "the extracted model exceeded its time / memory budget on %d of %d definitions"
                     % (nskip, len(cases)))
    return nskip


def run_impl(cases, workdir, batch_size=6, profile="debug", compile_timeout=150, extra_parens=None,
             run_timeout_ms=5000):
    """Compiles (real macro inside rustc) and runs. Fills c.impl, c.impl_runs, c.compile_error."""
    paths = build_repo(profile)
    if os.path.exists(workdir):
        shutil.rmtree(workdir)
    os.makedirs(workdir)
    batches = []
    for i in range(0, len(cases), batch_size):
        grp = cases[i:i + batch_size]
        batches.append((Batch(workdir, len(batches), [(c.name, c.d) for c in grp]), grp))
    stats = {"batches": len(batches), "compile_s_max": 0.0, "bisected": 0}

    def work(item):
        b, grp = item
        ok = b.build(paths, extra_parens=extra_parens, timeout=compile_timeout, opt=(profile == "release"))
        todo = [(b, grp)]
        if not ok and len(grp) > 1:
            # bisect to single definitions
            todo = []
            for j, c in enumerate(grp):
                sb = Batch(workdir, 1000 + b.idx * 100 + j, [(c.name, c.d)])
                sb.build(paths, extra_parens=extra_parens, timeout=compile_timeout, opt=(profile == "release"))
                if sb.compile_rc == -9:
                    # a time-out is reported only when the definition, compiled alone, also exceeds a six times
                    # larger limit (a loaded machine must not look like a macro that does not terminate)
                    sb.build(paths, extra_parens=extra_parens, timeout=compile_timeout * 6, opt=(profile == "release"))
                    stats["slow_retries"] = stats.get("slow_retries", 0) + 1
                todo.append((sb, [c]))
            stats["bisected"] += 1
        elif not ok and b.compile_rc == -9:
            b.build(paths, extra_parens=extra_parens, timeout=compile_timeout * 6, opt=(profile == "release"))
            stats["slow_retries"] = stats.get("slow_retries", 0) + 1
        for bb, g in todo:
            stats["compile_s_max"] = max(stats["compile_s_max"], bb.compile_s)
            if bb.compile_rc != 0:
                for c in g:
                    c.compile_error = bb.compile_out[-3000:]
                    dump = bb.dump(c.name)
                    if dump:
                        try:
                            c.impl = parse_dump(dump)
                        except Broken:
                            pass
                continue
            runs = bb.run([(c.name, i, ct, cl, cps) for c in g for i, (ct, cps, cl) in enumerate(c.inputs)],
                          timeout_ms=run_timeout_ms)
            for c in g:
                dump = bb.dump(c.name)
                c.impl_raw = dump
                c.impl = parse_dump(dump) if dump is not None else None
                for i in range(len(c.inputs)):
                    c.impl_runs[i] = runs.get((c.name, i), ["MISSING"])
    with ThreadPoolExecutor(NPROC) as ex:
        list(ex.map(work, batches))
    return stats


def lines_of(run_lines, pfx):
    return [l[2:] for l in run_lines if l.startswith(pfx + " ")]


# ---- projections of a stream (list of lines without prefix) -----------------------------------

def p_full(lines):
    return lines


def p_tokens(lines):
    """(rule, lexeme span) of every action run, errors as bare markers"""
    out = []
    for l in lines:
        p = l.split()
        if p[0] == "T":
            out.append(("T", p[1], p[2], p[5]))
        elif p[0] == "A":
            out.append(("A", p[1], p[2], p[5]))
        elif p[0] in ("EI", "EC"):
            out.append((p[0],))
        elif p[0] in ("N",):
            pass
        else:
            out.append(tuple(p))
    return out


def p_errors(lines):
    """error items with payload and location, and their position among the items"""
    out = []
    n = 0
    for l in lines:
        p = l.split()
        if p[0] in ("T", "EI", "EC"):
            if p[0] != "T":
                out.append((n,) + tuple(p))
            n += 1
        elif p[0] not in ("A", "N"):
            out.append(tuple(p))
    return out


def p_after_error(lines):
    """everything from the first InvalidToken on (items and action log entries after it)"""
    items = [l for l in lines if l.split()[0] in ("T", "EI", "EC", "N") or l.split()[0] not in ("A",)]
    for i, l in enumerate(items):
        if l.startswith("EI"):
            first_err_byte = int(l.split()[1])
            acts = [a for a in lines if a.startswith("A ") and int(a.split()[5]) > first_err_byte]
            return items[i:] + acts
    return []


def p_tail(lines):
    """end-of-input protocol: the last items and the Nones"""
    items = [l for l in lines if not l.startswith("A ")]
    return items[-5:] + [str(len(items))]


def p_counts(lines):
    bad = [l for l in lines if l.split()[0] in ("OVERRUN", "HANG", "PANIC", "P", "RESURRECTED", "MISSING", "RUNNER-TIMEOUT")]
    return bad


def p_actions(lines):
    return [l for l in lines if l.startswith("A ") or l.startswith("T ") or l.startswith("EC ")]


def p_noview_text(lines):
    """for C14: match_() text is unavailable on iterator input"""
    out = []
    for l in lines:
        p = l.split()
        if p[0] == "A":
            out.append(" ".join(p[:9]))
        else:
            out.append(l)
    return out


def p_locs(lines):
    return [l for l in lines]


PROJ = {"full": p_full, "tokens": p_tokens, "errors": p_errors, "after_error": p_after_error, "tail": p_tail,
        "counts": p_counts, "actions": p_actions, "noview": p_noview_text, "locs": p_locs}


def check_locs_independent(cps, lines):
    """C06: every Loc in the stream is the Loc obtained by scanning the input up to its byte index;
    byte indices are character boundaries; start <= end; lexeme text = input slice; no overlap, in
    order. Returns problems."""
    locs = scan_locs(cps)
    probs = []
    bytes_ = []
    for cp in cps:
        bytes_.append(cp)
    # byte offset -> char index
    off = {0: 0}
    b = 0
    for i, cp in enumerate(cps):
        b += utf8_len(cp)
        off[b] = i + 1

    def chk(bs, ls, cs, what):
        bi, li, ci = int(bs), int(ls), int(cs)
        if bi not in locs:
            probs.append("%s: byte index %d is not a character boundary" % (what, bi))
        elif locs[bi] != (li, ci):
            probs.append("%s: Loc at byte %d is line %d col %d, scanning gives %r" % (what, bi, li, ci, locs[bi]))
    last_end = 0
    for l in lines:
        p = l.split()
        if p[0] == "T":
            chk(p[2], p[3], p[4], "token start")
            chk(p[5], p[6], p[7], "token end")
            if int(p[2]) > int(p[5]):
                probs.append("token start %s > end %s" % (p[2], p[5]))
            if int(p[2]) < last_end:
                probs.append("token at %s overlaps the previous one ending at %d" % (p[2], last_end))
            last_end = max(last_end, int(p[5]))
        elif p[0] == "EI":
            chk(p[1], p[2], p[3], "error location")
        elif p[0] == "EC":
            chk(p[2], p[3], p[4], "custom error location")
        elif p[0] == "A":
            chk(p[2], p[3], p[4], "match_loc start")
            chk(p[5], p[6], p[7], "match_loc end")
            if int(p[2]) > int(p[5]):
                probs.append("match_loc start %s > end %s" % (p[2], p[5]))
            if p[9] != "-" and int(p[2]) in off and int(p[5]) in off:
                want = cps[off[int(p[2])]:off[int(p[5])]]
                got = [] if p[9] == "e" else [int(x) for x in p[9].split(",")]
                if want != got:
                    probs.append("match_() = %r but input[%s..%s] = %r" % (got, p[2], p[5], want))
            if p[8] != "-" or True:
                nxt = off.get(int(p[5]))
                if nxt is not None:
                    want_pk = str(cps[nxt]) if nxt < len(cps) else "-"
                    if p[8] != want_pk:
                        probs.append("peek() = %s but the first unconsumed character is %s" % (p[8], want_pk))
    return probs


def run_certificates(cases):
    """Runs the proved-sound boolean checkers (ClosedChecker.dfa_closed_b, NfaSem.flags_sound_b, ...) on
    the implementation's own dumped automata. Fills c.certs = list of dicts."""
    todo = [c for c in cases if c.impl_raw]
    if not todo:
        return
    shards = [[] for _ in range(min(NPROC, len(todo)))]
    for i, c in enumerate(todo):
        shards[i % len(shards)].append(c)

    def work(shard):
        parts = []
        for c in shard:
            body = "\n".join(l for l in c.impl_raw.split("\n") if not l.startswith("TOKENS") and not l.startswith("AST"))
            # the definition itself goes along, so that the model's own program can be compared (ProgIso.prog_iso_b)
            deflines = [l for l in lexdef.case_text(c.name, c.d, []).split("\n")
                        if l and not l.startswith("DEF ") and l != "ENDDEF"]
            parts.append("CHECKDUMP %s\nMODELDEF\n%s\nENDMODELDEF\n%s\nENDCHECK\n" % (c.name, "\n".join(deflines), body))
        return run_lexmodel("".join(parts))
    with ThreadPoolExecutor(len(shards)) as ex:
        outs = list(ex.map(work, shards))
    byname = {c.name: c for c in todo}
    for out in outs:
        cur = None
        for ln in out.split("\n"):
            if ln.startswith("CHECKED "):
                cur = byname[ln.split()[1]]
                cur.certs = []
                cur.gcode = []          # GenCode.gen_program on the implementation's own automata
                cur.gswitch = []
            elif ln.startswith("GCODE ") and cur is not None:
                cur.gcode.append(ln)
            elif ln.startswith("GSWITCH ") and cur is not None:
                p = ln.split()
                cur.gswitch.append((p[1], int(p[2])))
            elif ln.startswith("CERT ") and cur is not None:
                p = ln.split()
                d = {"kind": p[1]}
                for kv in p[2:]:
                    if "=" in kv:
                        k, v = kv.split("=", 1)
                        d[k] = v
                    else:
                        d.setdefault("msg", []).append(kv)
                cur.certs.append(d)
