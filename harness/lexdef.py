"""Lexer definitions: representation, random generation, rendering to the model's case format
and to Rust `lexer!` source, sampling of inputs.

Regex: tuples  ('char', cp) ('str', [cp..]) ('set', [cp | (lo, hi)..]) ('star', r) ('plus', r)
('opt', r) ('cat', a, b) ('or', a, b) ('any',) ('eoi',) ('diff', a, b) ('var', name)
('builtin', name).
Definition: list of tops: ('errtype',) ('let', name, re) ('rule', rule) ('ruleset', name, [items])
with items ('let', name, re) | ('rule', rule); rule = {'re':, 'ctx': None|re, 'kind': str}.
Action indices are assigned in source order (as the parser does)."""
import random

BUILTINS = ["alphabetic", "alphanumeric", "ascii", "ascii_alphabetic", "ascii_alphanumeric",
            "ascii_control", "ascii_digit", "ascii_graphic", "ascii_hexdigit", "ascii_lowercase",
            "ascii_punctuation", "ascii_uppercase", "ascii_whitespace", "control", "lowercase",
            "numeric", "uppercase", "whitespace", "XID_Start", "XID_Continue"]

# ----------------------------------------------------------------- rendering

def sexp(r):
    t = r[0]
    if t == 'char':
        return "(char %d)" % r[1]
    if t == 'str':
        return "(str %s)" % (",".join(map(str, r[1])) if r[1] else "-")
    if t == 'set':
        return "(set%s)" % "".join(" %s" % (x if isinstance(x, int) else "%d-%d" % x) for x in r[1])
    if t in ('star', 'plus', 'opt'):
        return "(%s %s)" % (t, sexp(r[1]))
    if t in ('cat', 'or', 'diff'):
        return "(%s %s %s)" % (t, sexp(r[1]), sexp(r[2]))
    if t == 'any':
        return "(any)"
    if t == 'eoi':
        return "(eoi)"
    if t == 'var':
        return "(var %s)" % r[1]
    if t == 'builtin':
        return "(builtin %s)" % r[1]
    raise ValueError(r)


def rust_char(cp):
    return "'\\u{%x}'" % cp


PREC = {'or': 0, 'cat': 1, 'star': 2, 'plus': 2, 'opt': 2, 'diff': 3}


def rust_regex(r, level=0, extra_parens=None):
    """Minimal parentheses for the grammar  | < concatenation < postfix < # < atom (all left
    associative). extra_parens: optional callable() -> bool adding redundant parentheses."""
    t = r[0]
    if t == 'char':
        s, p = rust_char(r[1]), 4
    elif t == 'str':
        s, p = '"%s"' % "".join("\\u{%x}" % c for c in r[1]), 4
    elif t == 'set':
        s = "[" + " ".join(rust_char(x) if isinstance(x, int) else "%s-%s" % (rust_char(x[0]), rust_char(x[1]))
                           for x in r[1]) + "]"
        p = 4
    elif t == 'any':
        s, p = "_", 4
    elif t == 'eoi':
        s, p = "$", 4
    elif t == 'var':
        s, p = "$" + r[1], 4
    elif t == 'builtin':
        s, p = "$$" + r[1], 4
    elif t in ('star', 'plus', 'opt'):
        s = rust_regex(r[1], 2, extra_parens) + {'star': '*', 'plus': '+', 'opt': '?'}[t]
        p = 2
    elif t == 'cat':
        s, p = rust_regex(r[1], 1, extra_parens) + " " + rust_regex(r[2], 2, extra_parens), 1
    elif t == 'or':
        s, p = rust_regex(r[1], 0, extra_parens) + " | " + rust_regex(r[2], 1, extra_parens), 0
    elif t == 'diff':
        s, p = rust_regex(r[1], 3, extra_parens) + " # " + rust_regex(r[2], 4, extra_parens), 3
    else:
        raise ValueError(r)
    if p < level or (extra_parens is not None and extra_parens()):
        s = "(" + s + ")"
    return s


def iter_rules(d):
    """Yields (ruleset_index or None, rule) in source order = action index order."""
    for top in d:
        if top[0] == 'rule':
            yield None, top[1]
        elif top[0] == 'ruleset':
            for it in top[2]:
                if it[0] == 'rule':
                    yield top[1], it[1]


def ruleset_names(d):
    return [top[1] for top in d if top[0] == 'ruleset']


def case_text(def_id, d, inputs):
    """inputs: list of (ctor, [cps])"""
    out = ["DEF %s" % def_id]
    aid = 0
    kinds = []

    def rule_line(pfx, rule):
        nonlocal aid
        line = "%s RULE %d %s | %s" % (pfx, aid, sexp(rule['re']), sexp(rule['ctx']) if rule['ctx'] else "-")
        kinds.append(rule['kind'])
        aid += 1
        return line

    for top in d:
        if top[0] == 'errtype':
            out.append("T ERRTYPE")
        elif top[0] == 'let':
            out.append("T LET %s %s" % (top[1], sexp(top[2])))
        elif top[0] == 'rule':
            out.append(rule_line("T", top[1]))
        elif top[0] == 'ruleset':
            out.append("T RULESET %s" % top[1])
            for it in top[2]:
                if it[0] == 'let':
                    out.append("R LET %s %s" % (it[1], sexp(it[2])))
                else:
                    out.append(rule_line("R", it[1]))
            out.append("T END")
    out.append("KINDS " + ";".join(kinds))
    for ctor, cps in inputs:
        out.append("INPUT %d %s" % (ctor, ",".join(map(str, cps)) if cps else "-"))
    out.append("ENDDEF")
    return "\n".join(out) + "\n"


LOG = ("let (s, e) = lexer.match_loc(); let pk = lexer.peek(); "
       "let txt = if lexer.state().with_str { Some(lexer.match_().to_string()) } else { None }; "
       "lexer.state().log.push((%d, s, e, pk, txt));")


def rust_body(body, lname, rsnames, fallible):
    parts = body.split(".")
    tok = (lambda k: "Ok(Tok(%s))" % k) if fallible else (lambda k: "Tok(%s)" % k)
    rs = lambda i: "%sRule::%s" % (lname, rsnames[int(i)])
    if parts[0] == 'ret':
        return "lexer.return_(%s)" % tok(parts[1])
    if parts[0] == 'cont':
        return "lexer.continue_()"
    if parts[0] == 'rcont':
        return "lexer.reset_match(); lexer.continue_()"
    if parts[0] == 'rret':
        return "lexer.reset_match(); lexer.return_(%s)" % tok(parts[1])
    if parts[0] == 'sw':
        return "lexer.switch(%s)" % rs(parts[1])
    if parts[0] == 'swret':
        return "lexer.switch_and_return(%s, %s)" % (rs(parts[1]), tok(parts[2]))
    if parts[0] == 'rsw':
        return "lexer.reset_match(); lexer.switch(%s)" % rs(parts[1])
    if parts[0] == 'err':
        assert fallible
        return "lexer.return_(Err(%s))" % parts[1]
    raise ValueError(body)


def rust_rule(rule, aid, lname, rsnames, extra_parens=None):
    lhs = rust_regex(rule['re'], 0, extra_parens)
    if rule['ctx'] is not None:
        lhs += " > " + rust_regex(rule['ctx'], 0, extra_parens)
    k = rule['kind'].split(":")
    if k[0] == 'skip':
        return "%s," % lhs
    if k[0] == 'simple':
        return "%s = Tok(%s)," % (lhs, k[1])
    if k[0] in ('inf', 'fal'):
        fal = k[0] == 'fal'
        return "%s %s |lexer| { %s %s }," % (lhs, "=?" if fal else "=>", LOG % aid,
                                           rust_body(k[1], lname, rsnames, fal))
    if k[0] == 'alt':
        fal = k[1] == '1'
        return ("%s %s |lexer| { %s let n = lexer.state().ctr; lexer.state().ctr += 1; "
                "if n %% 2 == 0 { %s } else { %s } },"
                % (lhs, "=?" if fal else "=>", LOG % aid, rust_body(k[2], lname, rsnames, fal),
                   rust_body(k[3], lname, rsnames, fal)))
    raise ValueError(rule['kind'])


def rust_lexer(lname, d, extra_parens=None, attrs="#[derive(Clone)]"):
    rsnames = ruleset_names(d)
    out = ["lexer! {", "    %s %s(U) -> Tok;" % (attrs, lname)]
    aid = 0
    for top in d:
        if top[0] == 'errtype':
            out.append("    type Error = u32;")
        elif top[0] == 'let':
            out.append("    let %s = %s;" % (top[1], rust_regex(top[2], 0, extra_parens)))
        elif top[0] == 'rule':
            out.append("    " + rust_rule(top[1], aid, lname, rsnames, extra_parens))
            aid += 1
        elif top[0] == 'ruleset':
            out.append("    rule %s {" % top[1])
            for it in top[2]:
                if it[0] == 'let':
                    out.append("        let %s = %s;" % (it[1], rust_regex(it[2], 0, extra_parens)))
                else:
                    out.append("        " + rust_rule(it[1], aid, lname, rsnames, extra_parens))
                    aid += 1
            out.append("    }")
    out.append("}")
    return "\n".join(out)


def has_errtype(d):
    return any(t[0] == 'errtype' for t in d)


# ----------------------------------------------------------------- analysis helpers (python side)

def nullable(r, env=None):
    t = r[0]
    if t in ('char', 'set', 'any', 'eoi', 'diff', 'builtin'):
        return False
    if t == 'str':
        return len(r[1]) == 0
    if t in ('star', 'opt'):
        return True
    if t == 'plus':
        return nullable(r[1], env)
    if t == 'cat':
        return nullable(r[1], env) and nullable(r[2], env)
    if t == 'or':
        return nullable(r[1], env) or nullable(r[2], env)
    if t == 'var':
        return nullable(env[r[1]], env) if env and r[1] in env else False
    raise ValueError(r)


def has_eoi(r, env=None):
    t = r[0]
    if t == 'eoi':
        return True
    if t in ('star', 'plus', 'opt'):
        return has_eoi(r[1], env)
    if t in ('cat', 'or', 'diff'):
        return has_eoi(r[1], env) or has_eoi(r[2], env)
    if t == 'var':
        return has_eoi(env[r[1]], env) if env and r[1] in env else False
    return False


def alphabet_of(r, env=None, acc=None):
    acc = set() if acc is None else acc
    t = r[0]
    if t == 'char':
        acc.add(r[1])
    elif t == 'str':
        acc.update(r[1])
    elif t == 'set':
        for x in r[1]:
            if isinstance(x, int):
                acc.add(x)
            else:
                acc.update([x[0], x[1], (x[0] + x[1]) // 2])
                if x[0] > 0:
                    acc.add(x[0] - 1)
                acc.add(x[1] + 1)
    elif t in ('star', 'plus', 'opt'):
        alphabet_of(r[1], env, acc)
    elif t in ('cat', 'or', 'diff'):
        alphabet_of(r[1], env, acc)
        alphabet_of(r[2], env, acc)
    elif t == 'var' and env and r[1] in env:
        alphabet_of(env[r[1]], env, acc)
    elif t == 'builtin':
        acc.update({'ascii_digit': [0x30, 0x39], 'ascii_lowercase': [0x61, 0x7a], 'ascii_uppercase': [0x41],
                    'alphabetic': [0x61, 0xe9, 0x4e2d], 'whitespace': [0x20, 0x0a, 0x09],
                    'ascii_whitespace': [0x20, 0x0a]}.get(r[1], [0x61, 0x31]))
    return acc


def sample_word(r, rng, env=None, depth=0):
    """A random word of the language (best effort; used to bias inputs towards lexable text).
    Returns list of cps, with None standing for end-of-input."""
    t = r[0]
    if t == 'char':
        return [r[1]]
    if t == 'str':
        return list(r[1])
    if t == 'set':
        x = rng.choice(r[1])
        return [x] if isinstance(x, int) else [rng.randint(x[0], x[1])] if x[0] <= x[1] else []
    if t == 'any':
        return [rng.choice([0x61, 0x62, 0x63, 0x78, 0x20, 0xe9, 0x4e2d])]
    if t == 'eoi':
        return [None]
    if t == 'star':
        return sum((sample_word(r[1], rng, env, depth + 1) for _ in range(rng.choice([0, 0, 1, 2, 3]))), [])
    if t == 'plus':
        return sum((sample_word(r[1], rng, env, depth + 1) for _ in range(rng.choice([1, 1, 2, 3]))), [])
    if t == 'opt':
        return sample_word(r[1], rng, env, depth + 1) if rng.random() < 0.5 else []
    if t == 'cat':
        return sample_word(r[1], rng, env, depth + 1) + sample_word(r[2], rng, env, depth + 1)
    if t == 'or':
        return sample_word(rng.choice([r[1], r[2]]), rng, env, depth + 1)
    if t == 'diff':
        return sample_word(r[1], rng, env, depth + 1)      # may be outside the class: fine
    if t == 'var':
        return sample_word(env[r[1]], rng, env, depth + 1) if env and r[1] in env else []
    if t == 'builtin':
        return [rng.choice(sorted(alphabet_of(r)))]
    raise ValueError(r)


# ----------------------------------------------------------------- random generation

class Gen:
    """All random choices come from one PRNG."""

    def __init__(self, seed, **opts):
        self.rng = random.Random(seed)
        self.o = dict(alphabet=[0x61, 0x62, 0x63], p_ctx=0.2, p_eoi=0.12, p_builtin=0.06, p_any=0.08,
                      p_diff=0.06, p_var=0.15, max_depth=3, p_named=0.6, max_rulesets=3, max_rules=5,
                      p_fallible=0.3, wide=False, kinds=None, p_alt=0.15, p_wide_char=0.0, p_frag=0.5, p_template=0.2)
        self.o.update(opts)
        self.stats = {}

    def bump(self, k, n=1):
        self.stats[k] = self.stats.get(k, 0) + n

    def char(self):
        r = self.rng
        if self.o['p_wide_char'] and r.random() < self.o['p_wide_char']:
            return r.choice([0xe9, 0x4e2d, 0x1f600, 0x301, 0x0a, 0x09, 0x20])
        return r.choice(self.o['alphabet'])

    def cls(self, depth=0):
        """a character class expression"""
        r = self.rng
        x = r.random()
        if x < 0.35:
            return ('char', self.char())
        if x < 0.75 or depth >= 2:
            items = []
            for _ in range(r.randint(1, 3)):
                if r.random() < 0.5:
                    items.append(self.char())
                else:
                    a = self.char()
                    b = a + r.choice([0, 1, 2, 3])
                    items.append((a, b))
            return ('set', items)
        if x < 0.80:
            return ('any',)
        if x < 0.86:
            return ('builtin', r.choice(['ascii_digit', 'ascii_lowercase', 'ascii_alphabetic', 'ascii_hexdigit']))
        if x < 0.93:
            return ('or', self.cls(depth + 1), self.cls(depth + 1))
        return ('diff', self.cls(depth + 1), self.cls(depth + 1))

    def regex(self, depth, vars_):
        r = self.rng
        o = self.o
        if depth <= 0 or r.random() < 0.25:
            x = r.random()
            if vars_ and x < o['p_var']:
                self.bump('var')
                return ('var', r.choice(vars_))
            x = r.random()
            if x < o['p_any']:
                self.bump('any')
                return ('any',)
            if x < o['p_any'] + o['p_builtin']:
                self.bump('builtin')
                return ('builtin', r.choice(['ascii_digit', 'ascii_lowercase', 'alphabetic', 'ascii_alphanumeric',
                                             'XID_Start', 'whitespace']))
            if x < o['p_any'] + o['p_builtin'] + o['p_diff']:
                self.bump('diff')
                if r.random() < 0.3:
                    # a removed range that swallows a whole range of the left operand from its first character and
                    # reaches into the following ones (the case remove_ranges must keep the removed range for)
                    self.bump('diff_spanning')
                    a = self.char()
                    left = [(a, a + r.randint(0, 2)), (a + 4, a + 4 + r.randint(0, 3))]
                    if r.random() < 0.5:
                        left.append((a + 10, a + 12))
                    hi = r.choice([a + 4, a + 5, a + 8, a + 11])
                    return ('diff', ('set', left), ('set', [(a - r.choice([0, 0, 1]), hi)]))
                return ('diff', self.cls(1), self.cls(1))
            x = r.random()
            if x < 0.45:
                return ('char', self.char())
            if x < 0.65:
                # an empty literal "" (matches the empty string) now and then
                x2 = r.random()
                k = 0 if x2 < 0.04 else (r.randint(18, 24) if x2 < 0.07 else r.randint(1, 3))
                if k == 0:
                    self.bump('empty_str')
                if k >= 18:
                    self.bump('long_str')      # a long chain of single-predecessor (inlined) states
                chars = [self.char() for _ in range(k)]
                if chars and r.random() < 0.12:
                    # a multi-byte character inside the literal, preferably at its end
                    chars[-1 if r.random() < 0.7 else r.randrange(len(chars))] = r.choice([0xe9, 0x3b1, 0x2192, 0x4e2d, 0x1f600])
                    self.bump('non_ascii_str')
                return ('str', chars)
            return self.cls(1) if r.random() < 0.3 else ('set', self.cls(2)[1]) if False else self.set_()
        x = r.random()
        if x < 0.38:
            return ('cat', self.regex(depth - 1, vars_), self.regex(depth - 1, vars_))
        if x < 0.62:
            return ('or', self.regex(depth - 1, vars_), self.regex(depth - 1, vars_))
        if x < 0.76:
            self.bump('star')
            return ('star', self.regex(depth - 1, vars_))
        if x < 0.90:
            self.bump('plus')
            return ('plus', self.regex(depth - 1, vars_))
        return ('opt', self.regex(depth - 1, vars_))

    def set_(self):
        r = self.rng
        items = []
        for _ in range(r.randint(1, 3)):
            if r.random() < 0.5:
                items.append(self.char())
            else:
                a = self.char()
                items.append((a, a + r.choice([0, 1, 2, 4])))
        if r.random() < self.o.get('p_alias', 0.08):
            # characters that coincide in their low byte / low 16 bits (a truncating index or hash would merge them)
            a = self.char()
            items += [a, a + 0x100 * r.randint(1, 3), a + 0x10000]
            self.bump('aliasing_set')
        return ('set', items)

    def new_fragments(self):
        r = self.rng
        fr = []
        for _ in range(r.randint(2, 4)):
            x = r.random()
            if x < 0.5:
                fr.append(('char', self.char()))
            elif x < 0.7:
                fr.append(('str', [self.char() for _ in range(r.randint(1, 2))]))
            elif x < 0.9:
                fr.append(self.set_())
            else:
                fr.append(('any',))
        self.frags = fr

    def frag_regex(self):
        r = self.rng
        F = lambda: r.choice(self.frags)
        x = r.random()
        if x < 0.2:
            return F()
        if x < 0.4:
            return ('cat', F(), F())
        if x < 0.6:
            return ('cat', ('or', F(), F()), F())
        if x < 0.75:
            return ('cat', ('or', F(), F()), ('cat', F(), F()))
        if x < 0.85:
            return ('cat', ('plus', F()), F())
        if x < 0.93:
            return ('cat', ('opt', F()), ('cat', F(), F()))
        return ('cat', F(), ('star', ('or', F(), F())))

    def rule_regex(self, vars_, env):
        r = self.rng
        for _ in range(20):
            if getattr(self, 'frags', None) and r.random() < 0.75:
                re = self.frag_regex()
                self.bump('frag_rule')
            else:
                re = self.regex(r.randint(0, self.o['max_depth']), vars_)
            if has_eoi(re, env):
                continue
            if nullable(re, env):
                re = ('cat', re, ('char', self.char())) if r.random() < 0.5 else ('cat', ('char', self.char()), re)
            if r.random() < self.o['p_eoi']:
                self.bump('eoi_rule')
                x = r.random()
                if x < 0.5:
                    re = ('cat', re, ('eoi',))
                elif x < 0.8:
                    re = ('cat', re, ('opt', ('eoi',))) if False else ('or', re, ('cat', re, ('eoi',)))
                else:
                    re = ('eoi',)
            return re
        return ('char', self.char())

    def ctx_regex(self, vars_, env):
        r = self.rng
        re = self.regex(r.randint(0, 2), vars_)
        if has_eoi(re, env):
            re = ('char', self.char())
        x = r.random()
        if x < 0.15:
            re = ('cat', re, ('eoi',))
        elif x < 0.25:
            re = ('eoi',)
        elif x < 0.32:
            re = ('or', re, ('eoi',))
        return re

    def kind(self, named, nrs, fallible_ok):
        r = self.rng
        if self.o['kinds']:
            pool = self.o['kinds']
        else:
            pool = ['skip', 'simple', 'simple', 'simple', 'inf:ret', 'inf:ret', 'inf:cont', 'inf:rcont', 'inf:rret']
            if named:
                pool += ['inf:sw', 'inf:swret', 'inf:rsw', 'inf:sw']
            if fallible_ok:
                pool += ['fal:ret', 'fal:err', 'fal:cont']
        def concrete(k):
            parts = k.split(":")
            if parts[0] == 'skip':
                return 'skip'
            if parts[0] == 'simple':
                return 'simple:%d' % r.randint(0, 99)
            return parts[0] + ":" + body(parts[1])
        def body(b):
            if nrs == 0:            # no rule sets to switch to: the corresponding action without a switch
                b = {'sw': 'cont', 'rsw': 'rcont', 'swret': 'ret'}.get(b, b)
            if b in ('ret', 'rret', 'err'):
                return "%s.%d" % (b, r.randint(0, 99))
            if b in ('cont', 'rcont'):
                return b
            if b in ('sw', 'rsw'):
                return "%s.%d" % (b, r.randrange(nrs))
            if b == 'swret':
                return "swret.%d.%d" % (r.randrange(nrs), r.randint(0, 99))
            raise ValueError(b)
        k = r.choice(pool)
        self.bump('kind_' + k.split(":")[-1] if ":" in k else 'kind_' + k)
        if ":" in k and r.random() < self.o['p_alt']:
            k2 = r.choice([x for x in pool if ":" in x and x.split(":")[0] == k.split(":")[0]])
            fal = '1' if k.startswith('fal') else '0'
            self.bump('kind_alt')
            return "alt:%s:%s:%s" % (fal, body(k.split(":")[1]), body(k2.split(":")[1]))
        return concrete(k)

    def definition(self):
        r = self.rng
        o = self.o
        self.frags = None
        if r.random() < o['p_frag']:
            self.new_fragments()
            self.bump('frag_defs')
        named = r.random() < o['p_named']
        fallible = r.random() < o['p_fallible']
        d = []
        env = {}
        if fallible:
            d.append(('errtype',))
        top_vars = []
        for i in range(r.choice([0, 0, 1, 2])):
            nm = "v%d" % i
            re = self.regex(r.randint(0, 2), list(top_vars))
            if has_eoi(re, env):
                re = ('char', self.char())
            d.append(('let', nm, re))
            env[nm] = re
            top_vars.append(nm)
        big = r.random() < o.get('p_big', 0.08)
        big_rules = []
        if big:
            # shapes a small random sample would never contain: many rules, a class of many ranges (more than
            # MAX_GUARD_SIZE: a search table in the lexer's own arms), deep nesting, characters far from ASCII
            kind_b = r.choice(['many_rules', 'many_ranges', 'deep', 'far_chars', 'many_chars', 'class_chain', 'literal_alts'])
            self.bump('big_' + kind_b)
            if kind_b == 'many_rules':
                for i in range(r.randint(10, 16)):
                    c = 0x61 + i
                    re = r.choice([('cat', ('char', c), ('char', 0x61 + (i * 7) % 5)), ('plus', ('char', c)),
                                   ('cat', ('char', c), ('opt', ('set', [(0x30, 0x39)])))])
                    big_rules.append({'re': re, 'ctx': None, 'kind': self.kind(named, 0, fallible) if not named else 'simple:%d' % i})
            elif kind_b == 'many_ranges':
                lo = r.choice([0x41, 0x100, 0x4e00])
                rngs = [(lo + 4 * i, lo + 4 * i + r.randint(0, 2)) for i in range(r.randint(10, 14))]
                cls = ('set', rngs)
                if o['p_ctx'] > 0 and r.random() < 0.6:
                    # a single character of the big class under a right context, above a rule that covers only part of
                    # the class: when the context fails the rest of the candidate list must still be tried, per range
                    big_rules.append({'re': cls, 'ctx': ('char', 0x21), 'kind': 'simple:96'})
                    big_rules.append({'re': ('set', rngs[2:5]), 'ctx': None, 'kind': 'simple:97'})
                else:
                    big_rules.append({'re': ('plus', cls), 'ctx': None, 'kind': 'simple:90'})
                big_rules.append({'re': ('cat', ('char', 0x61), ('diff', ('any',), cls)), 'ctx': None, 'kind': 'simple:91'})
            elif kind_b == 'many_chars':
                # more than MAX_GUARD_SIZE characters listed one by one, all leading to the same state, and a range
                # over the same letters leading elsewhere: the character transitions must win
                cs = [0x61 + 2 * i for i in range(r.randint(10, 12))]
                big_rules.append({'re': ('cat', ('set', cs), ('char', 0x3d)), 'ctx': None, 'kind': 'simple:98'})
                big_rules.append({'re': ('set', [(0x61, 0x7a)]), 'ctx': None, 'kind': 'simple:99'})
                big_rules.append({'re': ('char', 0x3d), 'ctx': None, 'kind': 'simple:89'})
            elif kind_b == 'class_chain':
                # a long concatenation of one small class made of a single character and a wider range (at most
                # MAX_GUARD_SIZE ranges: a guard chain): every state of the chain has one predecessor
                cls = r.choice([('builtin', 'ascii_whitespace'), ('set', [(0x61, 0x63), 0x78]),
                                ('diff', ('set', [(0x61, 0x7a)]), ('set', [0x62, 0x64]))])
                re = cls
                for _ in range(r.randint(12, 15)):
                    re = ('cat', re, cls)
                big_rules.append({'re': re, 'ctx': None, 'kind': 'simple:88'})
            elif kind_b == 'literal_alts':
                # a long alternation of character / string literals in which some are prefixes of others, in both orders
                # (an operator or keyword list); followed by something in a second rule
                words = [[0x3c], [0x3c, 0x3d], [0x3c, 0x3c], [0x3c, 0x3c, 0x3d], [0x3d], [0x3d, 0x3d], [0x69, 0x6e], [0x69, 0x6e, 0x74],
                         [0x69], [0x61, 0x62], [0x61, 0x62, 0x63], [0x2b]]
                r.shuffle(words)
                words = words[:r.randint(8, 12)]
                lit = lambda w: ('char', w[0]) if len(w) == 1 and r.random() < 0.6 else ('str', list(w))
                re = lit(words[0])
                for w in words[1:]:
                    re = ('or', re, lit(w))
                big_rules.append({'re': re, 'ctx': None, 'kind': 'simple:86'})
                big_rules.append({'re': ('cat', re, ('char', 0x21)), 'ctx': None, 'kind': 'simple:87'})
            elif kind_b == 'deep':
                re = ('char', self.char())
                for i in range(r.randint(5, 7)):
                    re = r.choice([('cat', ('opt', re), ('char', self.char())), ('or', ('cat', re, ('char', self.char())), ('char', self.char())),
                                   ('plus', ('cat', re, ('char', self.char())))])
                big_rules.append({'re': re, 'ctx': None, 'kind': 'simple:92'})
            else:
                far = r.choice([[0x10FFFF, 0x10FFFE], [0xD7FF, 0xE000], [0x1F600, 0x1F64F], [0xFFFF, 0x10000]])
                big_rules.append({'re': ('plus', ('set', [(far[0] - 2, far[0]) if far[0] - 2 > 0xE000 or far[0] < 0xD800 else far[0], far[1]])),
                                  'ctx': None, 'kind': 'simple:93'})
                big_rules.append({'re': ('cat', ('char', far[1]), ('char', 0x61)), 'ctx': None, 'kind': 'simple:94'})
                # everything but a character / a block next to the surrogate gap or at the end of the code space:
                # range pieces that start or end at a surrogate, or at char::MAX
                hole = r.choice([('char', 0xE000), ('set', [(0xE000, 0xF8FF)]), ('char', 0xD7FF), ('char', 0x10FFFF),
                                 ('set', [(0xD7F0, 0xD7FF), (0xE000, 0xE00F)])])
                big_rules.append({'re': ('cat', ('char', 0x62), ('plus', ('diff', ('any',), hole))), 'ctx': None, 'kind': 'simple:95'})
        if not named:
            nrules = r.randint(1, o['max_rules'])
            for br in big_rules:
                d.append(('rule', br))
            for _ in range(nrules):
                d.append(('rule', self.rule(top_vars, env, False, 0, fallible)))
            self.bump('unnamed')
        else:
            nrs = r.randint(1, o['max_rulesets'])
            names = ['Init'] + ["R%d" % i for i in range(1, nrs)]
            self.bump('rulesets_%d' % nrs)
            # the same local variable name bound differently in every rule set, and used in a right context (or in
            # the regex): bindings must be resolved in the scope of the rule, never cached by the text of the regex
            shared = nrs >= 2 and r.random() < o.get('p_shared', 0.25)
            if shared:
                self.bump('shared_local_name')
            for k_rs, nm in enumerate(names):
                items = []
                local_vars = list(top_vars)
                lenv = dict(env)
                if shared:
                    body = [('char', 0x61 + k_rs), ('set', [(0x62 + k_rs, 0x63 + k_rs)]), ('str', [0x61 + k_rs, 0x62])][k_rs % 3]
                    items.append(('let', 'loc', body))
                    lenv['loc'] = body
                    local_vars.append('loc')
                    head = ('set', [(0x61, 0x65)])
                    if k_rs % 3 != 2:
                        # the variable as an operand of `#` (resolved by regex_to_range_map, another code path)
                        items.append(('rule', {'re': ('cat', ('char', 0x23), ('plus', ('diff', ('set', [(0x61, 0x68)]), ('var', 'loc')))),
                                               'ctx': None, 'kind': 'simple:%d' % (70 + k_rs)}))
                    # a way into the next rule set, so that every binding of the name is exercised
                    items.append(('rule', {'re': ('char', 0x3e), 'ctx': None, 'kind': 'inf:sw.%d' % ((k_rs + 1) % nrs)}))
                    if o['p_ctx'] > 0:
                        items.append(('rule', {'re': head, 'ctx': ('var', 'loc'), 'kind': self.kind(True, nrs, fallible)}))
                    else:
                        items.append(('rule', {'re': ('cat', head, ('var', 'loc')), 'ctx': None, 'kind': self.kind(True, nrs, fallible)}))
                nrules = r.randint(0 if nm != 'Init' and r.random() < 0.1 else 1, o['max_rules'])
                if nm == 'Init':
                    for br in big_rules:
                        items.append(('rule', br))
                for j in range(nrules):
                    if r.random() < 0.12:
                        v = "w%s%d" % (nm.lower(), j)
                        re = self.regex(r.randint(0, 2), list(local_vars))
                        if has_eoi(re, lenv):
                            re = ('char', self.char())
                        items.append(('let', v, re))
                        lenv[v] = re
                        local_vars.append(v)
                    items.append(('rule', self.rule(local_vars, lenv, True, nrs, fallible)))
                d.append(('ruleset', nm, items))
            if shared and r.random() < 0.5:
                # a top-level binding of the same name declared after the rule sets: it must not reach back into them
                d.append(('let', 'loc', ('char', 0x7a)))
                self.bump('late_top_let')
            if r.random() < o.get('p_empty_rs', 0.1):
                # a rule set without rules, and a way into it: whatever follows must fail there, consume the offending
                # character and resume in Init
                for top in d:
                    if top[0] == 'ruleset' and top[1] == 'Init':
                        top[2].append(('rule', {'re': ('char', 0x21), 'ctx': None, 'kind': 'inf:sw.%d' % nrs}))
                d.append(('ruleset', 'RE', []))
                self.bump('empty_ruleset')
        return d

    def rule(self, vars_, env, named, nrs, fallible):
        r = self.rng
        re = self.rule_regex(vars_, env)
        ctx = None
        if r.random() < self.o['p_ctx']:
            ctx = self.ctx_regex(vars_, env)
            self.bump('ctx')
        return {'re': re, 'ctx': ctx, 'kind': self.kind(named, nrs, fallible)}

    # ---- structured shapes named in the properties' quantifiers: automata with a join that is reachable
    #      both with and without an earlier accepting position, in any rule set, with switches
    def template_definition(self):
        r = self.rng
        letters = r.sample([0x61, 0x62, 0x63, 0x64, 0x65, 0x66], 5)
        a, b, c, dd, sw = letters
        nrs = r.randint(1, 3)
        names = ['Init'] + ["R%d" % i for i in range(1, nrs)]
        fallible = r.random() < 0.3
        d = [('errtype',)] if fallible else []
        self.tmpl_alpha = letters + [0x3f]
        tok = lambda: 'simple:%d' % r.randint(0, 99)

        def kind(sw_ok=True):
            x = r.random()
            if x < 0.5:
                return tok()
            if x < 0.6:
                return 'skip'
            if x < 0.75:
                return 'inf:ret.%d' % r.randint(0, 99)
            if x < 0.85:
                return 'inf:cont'
            if x < 0.9:
                return 'inf:rcont'
            if fallible and x < 0.95:
                return r.choice(['fal:ret.%d' % r.randint(0, 99), 'fal:err.%d' % r.randint(0, 99)])
            return 'inf:rret.%d' % r.randint(0, 99)
        for k, nm in enumerate(names):
            short = r.choice([('char', a), ('plus', ('char', a)), ('cat', ('char', a), ('opt', ('char', a)))])
            join_head = ('or', ('char', a), ('char', b)) if r.random() < 0.7 else ('set', [a, b])
            mid = r.choice([('char', c), ('plus', ('char', c)), ('str', [c, c])])
            long_ = ('cat', join_head, ('cat', mid, ('char', dd)))
            rules = [{'re': short, 'ctx': (('char', r.choice([c, dd, b])) if r.random() < 0.25 else None), 'kind': kind()},
                     {'re': long_, 'ctx': None, 'kind': kind()}]
            if r.random() < 0.6:
                rules.append({'re': ('cat', ('char', a), ('char', b)), 'ctx': None, 'kind': kind()})
            if r.random() < 0.6:
                rules.append({'re': ('char', r.choice([c, dd])), 'ctx': None, 'kind': kind()})
            if r.random() < 0.2:
                rules.append({'re': ('eoi',), 'ctx': None, 'kind': tok()})
            if nrs > 1:
                tgt = r.choice([j for j in range(nrs) if j != k])
                rules.append({'re': ('char', sw), 'ctx': None,
                              'kind': r.choice(['inf:sw.%d' % tgt, 'inf:swret.%d.%d' % (tgt, r.randint(0, 99)),
                                                'inf:rsw.%d' % tgt, 'alt:0:sw.%d:cont' % tgt])})
            r.shuffle(rules)
            d.append(('ruleset', nm, [('rule', x) for x in rules]))
        self.bump('template_defs')
        return d

    def template_inputs(self, n, ctors=(0,)):
        r = self.rng
        out = [(ctors[0], [])]
        seen = {()}
        while len(out) < n:
            s = tuple(r.choice(self.tmpl_alpha) for _ in range(r.randint(2, 11)))
            if s in seen:
                continue
            seen.add(s)
            out.append((r.choice(ctors), list(s)))
        return out

    # ---- inputs
    def width_boundary_chars(self, k):
        """characters whose display width is not 1, and their neighbours: first / last character of runs of the
        unicode-width table (from the independent enumerator), e.g. U+00AD, combining marks, wide blocks"""
        if not hasattr(self, "_wruns"):
            import lexcheck
            try:
                self._wruns = [(a, b) for a, b, w in lexcheck.load_width_table()]
            except OSError:
                self._wruns = []
        out = []
        # the lowest runs always (a threshold "fast path" would get exactly these wrong), the rest at random
        for a, b in self._wruns[:3]:
            out += [c for c in (a, b) if c > 0x20]
        for _ in range(k):
            if not self._wruns:
                break
            a, b = self.rng.choice(self._wruns)
            c = self.rng.choice([a, b, a - 1, b + 1])
            if 0 < c <= 0x10FFFF and not (0xD800 <= c <= 0xDFFF) and c not in (0x0d,):
                out.append(c)
        return out

    def inputs(self, d, n, max_len=12, ctors=(0,)):
        r = self.rng
        env = {}
        rules = []
        for top in d:
            if top[0] == 'let':
                env[top[1]] = top[2]
            elif top[0] == 'ruleset':
                for it in top[2]:
                    if it[0] == 'let':
                        env[it[1]] = it[2]
        for _, rule in iter_rules(d):
            rules.append(rule)
        alpha = set()
        for rule in rules:
            alphabet_of(rule['re'], env, alpha)
            if rule['ctx']:
                alphabet_of(rule['ctx'], env, alpha)
        alpha = sorted(c for c in alpha if c is not None and 0 <= c <= 0x10FFFF and not (0xD800 <= c <= 0xDFFF))
        if not alpha:
            alpha = [0x61]
        others = [0x78, 0x20, 0x85, 0x0]        # a C1 control and NUL: characters without a display width of their own
        if self.o['wide']:
            others += [0x0a, 0x09, 0xe9, 0x4e2d, 0x1f600, 0x301, 0x200b]
            others += self.width_boundary_chars(8)
        out = [(ctors[0], [])]
        seen = {()}
        tries = 0
        rsets = [[it[1] for it in top[2] if it[0] == 'rule'] for top in d if top[0] == 'ruleset']
        if not rsets:
            rsets = [rules]
        while len(out) < n and tries < n * 10:
            tries += 1
            mode = r.random()
            s = []
            if mode < 0.45 and rules:
                # walk through the rule sets the way the lexer would: words of rules of the active rule set,
                # following switches; sometimes a word is cut short and followed by a foreign character
                # (failure: back to Init), then lexing goes on
                cur = 0
                for _ in range(r.randint(2, 6)):
                    rs = rsets[cur] if cur < len(rsets) and rsets[cur] else rsets[0]
                    if not rs:
                        s.append(r.choice(alpha))
                        cur = 0
                        continue
                    rule = r.choice(rs)
                    w = [c for c in sample_word(rule['re'], r, env) if c is not None]
                    if rule['ctx'] and r.random() < 0.7:
                        w += [c for c in sample_word(rule['ctx'], r, env) if c is not None]
                    x = r.random()
                    if x < 0.25 and len(w) >= 1:
                        cut = r.randrange(0, len(w) + 1)
                        s += w[:cut] + [r.choice(others + alpha)]
                        cur = 0
                        continue
                    s += w
                    k = rule['kind']
                    m = __import__('re').findall(r"sw(?:ret)?\.(\d+)", k)
                    if m and (not k.startswith('alt') or r.random() < 0.5):
                        cur = int(m[0])
            elif mode < 0.65 and rules:
                # concatenation of sampled words, possibly cut or perturbed
                for _ in range(r.randint(1, 4)):
                    rule = r.choice(rules)
                    w = [c for c in sample_word(rule['re'], r, env) if c is not None]
                    if rule['ctx'] and r.random() < 0.6:
                        w += [c for c in sample_word(rule['ctx'], r, env) if c is not None]
                    s += w
                x = r.random()
                if x < 0.25 and s:
                    s = s[:r.randrange(len(s) + 1)]
                elif x < 0.45:
                    pos = r.randrange(len(s) + 1)
                    s = s[:pos] + [r.choice(others + alpha)] + s[pos:]
            else:
                ln = r.randint(1, max_len)
                s = [r.choice(alpha) if r.random() < 0.8 else r.choice(others) for _ in range(ln)]
            long_one = rules and r.random() < 0.04
            if long_one:
                # a long input: many words of the rule languages in a row (with a few foreign characters)
                s = []
                while len(s) < 60:
                    rule = r.choice(rules)
                    s += [c for c in sample_word(rule['re'], r, env) if c is not None]
                    if r.random() < 0.1:
                        s.append(r.choice(others))
                self.bump('long_input')
            s = [c for c in s if 0 <= c <= 0x10FFFF and not (0xD800 <= c <= 0xDFFF)][:(120 if long_one else max_len * 2)]
            if self.o['wide'] and r.random() < 0.06:
                s = [0xFEFF] + s            # a byte order mark is a character like any other
            if self.o['wide'] and r.random() < 0.5 and s:
                pos = r.randrange(len(s) + 1)
                s = s[:pos] + [r.choice([0x0a, 0x09, 0xe9, 0x4e2d, 0x1f600, 0x301] + others[11:])] + s[pos:]
            key = tuple(s)
            if key in seen:
                continue
            seen.add(key)
            out.append((r.choice(ctors), s))
        return out
