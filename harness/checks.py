"""Per-property checks. Each check fills ctx.coverage and calls ctx.violation / ctx.broken."""
import glob, json, os, random, re, shutil, time

from common import *
import lexdef
import lexcheck
from lexcheck import Case, run_model, run_impl, lines_of, PROJ
import pipeline
import gencode
from pipeline import compare_artifacts


class Ctx:
    def __init__(self, prop, tier, seed):
        self.prop, self.tier, self.seed = prop, tier, seed
        self.coverage = {"samples": [], "trusted_base": TRUSTED_BASE, "evaluations": 0,
                         "distinct_nontrivial": 0, "programs": 0, "disagreements_checked": 0}
        self.violations = []       # (key, replay path, has_input)
        self.known_hits = []
        self.known = [k for k in load_known().get("known", []) if k["property"] == prop]
        self.assumptions = list(ASSUMPTIONS)

    def sample(self, s):
        if len(self.coverage["samples"]) < 6:
            self.coverage["samples"].append(s)

    def violation(self, key, data, has_input=True):
        for k in self.known:
            if k["key"] == key:
                if key not in self.known_hits:
                    self.known_hits.append(key)
                    print("KNOWN-FINDING: property=%s %s" % (self.prop, k["what"]), flush=True)
                return
        # at most 8 violations with a failing input; one report per stage that no longer checks
        if has_input:
            if sum(1 for v in self.violations if v[2]) >= 8:
                return
        else:
            if any(v[0] == key and not v[2] for v in self.violations) or sum(1 for v in self.violations if not v[2]) >= 6:
                self.suppressed = getattr(self, "suppressed", 0) + 1
                return
        data = dict(data, property=self.prop, key=key, seed=self.seed, tier=self.tier,
                    kind="failing-input" if has_input else "no-failing-input-found")
        path = write_replay(self.prop, data)
        self.violations.append((key, path, has_input))

    def broken(self, stage, detail, data=None):
        """a theorem or a correspondence stage no longer checks and no failing input was found"""
        d = dict(data or {})
        d.update({"stage": stage, "detail": detail if isinstance(detail, str) else repr(detail)})
        self.violation("broken:" + stage, d, has_input=False)

    def finish(self, wall):
        cov = self.coverage
        level = "proof" if cov.get("obligations", 0) > 0 else "translation_validation"
        if level != "proof":
            for k in ("obligations", "discharged"):
                cov.pop(k, None)
        write_evidence(self.prop, self.tier, self.seed, level, cov, wall, len(self.violations), self.assumptions)
        for key, path, has_input in sorted(self.violations, key=lambda v: not v[2]):
            print("VIOLATION property=%s replay=%s%s" % (self.prop, path, "" if has_input else " no-failing-input-found"),
                  flush=True)
        log("%s %s: %d obligations, %d discharged, %d programs, %d evaluations, %d violations, %.1fs"
            % (self.prop, self.tier, cov.get("obligations", 0), cov.get("discharged", 0), cov.get("programs", 0),
               cov.get("evaluations", 0), len(self.violations), wall))
        return 1 if self.violations else 0


TRUSTED_BASE = [
    "Coq 8.16.1 kernel incl. vm_compute (no native_compute); coqchk re-check in the thorough tier",
    "axioms: none (Print Assumptions of every theorem in props/*.v: Closed under the global context)",
    "translator harness/gen_coq.py (char_ranges.rs, builtin.rs, MAX_GUARD_SIZE, tab width -> coq/gen/*.v) and the "
    "independent predicate/width enumerator harness/oracle",
    "extraction: ExtrOcamlBasic only (Extract Inductive bool, option, unit, list, prod, sumbool, sumor; Extract "
    "Inlined Constant andb, orb; no directive of our own); OCaml driver coq/extract/driver.ml (I/O, number conversion)",
    "correspondence harness (Python generators, Rust hook serialisers under cfg(lexgen_verif), comparison of "
    "automata up to isomorphism); translator harness/gencode.py (generated token stream -> GenCode.v syntax trees)",
    "modelled, not verified: rustc and the semantics of generated Rust, std (Peekable, Chars, len_utf8, "
    "slice::binary_search_by, FxHashMap iteration order), syn/proc_macro2/quote, unicode-width, unicode-xid, "
    "#[derive(Clone)]",
]
ASSUMPTIONS = [
    "input characters are Unicode scalar values; user iterators are fused",
    "Loc counters stay below 2^32 (u32 overflow not modelled)",
    "display width of a character is an oracle (unicode-width crate), tabulated by harness/oracle",
]


def coqchk(ctx):
    t0 = time.time()
    # the whole development (every property's cone is inside it): independent re-check of all .vo files
    mods = ["EndToEndModel", "SubsetTermination", "ScopingFacts", "GenCodeChecks", "ProgIso", "GenUtilProofs", "LexSpecProofs", "LexSpecFacts", "RuntimeLemmas", "DefParserProofs", "CharGenProofs",
            "DriverProofs", "CharClassProofs", "ClassAlgProofs", "Instance"]
    r = run(["coqchk", "-silent", "-o", "-Q", "theories", "LexVerif", "-Q", "gen", "LexVerif.Gen"]
            + ["LexVerif.%s" % m for m in mods], cwd=COQ, timeout=3000)
    out = r.stdout
    ctx.coverage["coqchk"] = {"rc": r.returncode, "wall_s": round(time.time() - t0, 1), "tail": out[-600:]}
    if r.returncode != 0:
        ctx.broken("coqchk", out[-2000:])
    else:
        m = re.search(r"\* Axioms:\s*(.*?)(?:\n\s*\*|\Z)", out, re.S)
        axioms = m.group(1).strip() if m else "?"
        ctx.coverage["coqchk"]["axioms"] = axioms
        if axioms != "<none>":
            ctx.broken("coqchk-axioms", axioms)


CONE = {}

# =====================================================================================================
# generated lexers
# =====================================================================================================

STAGES = {
    "C01": {"nfa", "dfa", "flags", "joined", "simplified", "templates", "gencode"},
    "C06": {"templates", "gencode"}, "C07": {"templates", "gencode"}, "C08": {"templates", "gencode"},
    "C09": {"templates", "gencode"}, "C10": {"templates", "gencode"},
    "C02": {"nfa", "dfa", "tables"},
    "C03": {"joined", "simplified", "dispatch", "ruleset-count", "gencode"},
    "C04": {"nfa", "dfa", "ctx-count", "tables", "gencode"},
    "C05": {"dfa", "simplified", "templates", "gencode"},
    "C11": {"tables"},
    # C12 is about the expansion itself (terminates, deterministic, output compiles): what the automata and the
    # generated code *mean* belongs to the other properties and is not reported here
    "C12": {"ruleset-count", "ctx-count", "tables"},
    "C14": {"gencode"}, "C15": {"gencode"},
}
# "gencode": harness/gencode.py translates the token stream the macro produced into the syntax trees of
# GenCode.v and compares them with GenCode.gen_program run (by the extracted model) on the implementation's own
# simplified DFA / entry map / context automata; GenCodeProofs.v gives those trees their meaning


# which certificate fields gate which property (ClosedChecker / NfaSem checkers, proved sound)
CERT_PROPS = {
    "C01": {"progiso", "charsok", "ctxok", "sound", "closed", "shape", "targets", "nranges", "dranges"},
    "C02": {"closed", "shape", "targets", "nranges", "dranges"},
    "C03": {"progiso", "charsok", "ctxok", "shape"},
    "C04": {"progiso", "charsok", "ctxok", "closed", "shape", "targets", "nranges", "dranges"},
    "C05": {"progiso", "charsok", "ctxok", "sound", "closed", "shape"},
    "C06": {"progiso", "charsok", "ctxok", "sound", "closed", "shape"},
    "C07": {"progiso", "charsok", "ctxok", "sound", "closed", "shape"},
    "C08": {"progiso", "charsok", "ctxok", "sound", "closed", "shape"},
    "C09": {"progiso", "charsok", "ctxok", "sound", "closed", "shape"},
    "C10": {"progiso", "charsok", "ctxok", "sound", "closed", "shape"},
    "C14": {"progiso", "charsok", "ctxok", "sound", "closed", "shape"},
    "C15": {"progiso", "charsok", "ctxok", "sound", "closed", "shape"},
}


def load_corpus(prop):
    out = []
    for p in sorted(glob.glob(os.path.join(VERIF, "harness", "corpus", "*.json"))):
        e = json.load(open(p))
        if prop in e.get("properties", []):
            out.append(e)
    return out


def describe(case, i=None):
    d = {"definition": lexdef.rust_lexer(case.name, case.d), "case": lexdef.case_text(case.name, case.d, []),
         "definition_data": case.d}          # what `vcheck replay` rebuilds the lexer from
    if i is not None:
        ct, cps, cl = case.inputs[i]
        d.update({"input": cps, "input_text": "".join(chr(c) for c in cps), "constructor": ct, "clone_at": cl})
    return d


def lexer_check(ctx, gen_opts, ndefs, ninputs, projs, ctors=(0,), clone=False, need_wf=True, profile="debug",
                max_len=12, extra=None, loc_check=False, require=None):
    prop = ctx.prop
    gen = lexdef.Gen(ctx.seed, **gen_opts)
    cases = []
    # corpus first
    for e in load_corpus(prop):
        d = json.loads(json.dumps(e["definition"]), object_hook=None)
        d = untuple(d)
        inputs = [(ct, cps, None) for ct, cps in e["inputs"]]
        cases.append(Case(len(cases), d, inputs))
    ncorpus = len(cases)
    while len(cases) < ncorpus + ndefs:
        if not require and gen.rng.random() < gen.o['p_template']:
            d = gen.template_definition()
            ins = gen.template_inputs(ninputs + 10, ctors=ctors)
        else:
            d = gen.definition()
            if require and not require(d):
                continue
            ins = gen.inputs(d, ninputs, max_len=max_len, ctors=ctors)
        inputs = []
        for ct, cps in ins:
            if clone:
                # several clone points per input: early ones (right after the first matches, where a switch has just
                # happened in the stateful inputs) and a random one
                for cl in sorted({1, 2, gen.rng.randrange(0, len(cps) + 3)}):
                    inputs.append((ct, cps, cl))
            else:
                inputs.append((ct, cps, None))
        cases.append(Case(len(cases), d, inputs))
    t0 = time.time()
    run_model(cases)
    t_model = time.time() - t0
    usable, n_panic, n_nonwf = [], 0, 0
    for c in cases:
        if c.model["panic"]:
            n_panic += 1
        elif need_wf and not c.model["wf"]:
            n_nonwf += 1
        else:
            usable.append(c)
    t0 = time.time()
    stats = run_impl(usable, os.path.join(BUILD, "work_%s" % prop), profile=profile)
    t_impl = time.time() - t0
    log("%s: %d definitions (%d corpus), %d usable (%d model-rejected, %d not well-formed); model %.1fs, rustc+run %.1fs"
        % (prop, len(cases), ncorpus, len(usable), n_panic, n_nonwf, t_model, t_impl))
    stages = STAGES.get(prop, set())
    ncert = nisook = nisoren = 0
    if prop in CERT_PROPS:
        t0 = time.time()
        lexcheck.run_certificates(usable)
        for c in usable:
            if c.certs is None:
                continue
            for cert in c.certs:
                ncert += 1
                if cert["kind"] == "ISO" and cert.get("progiso") == "1":
                    nisook += 1
                    nisoren += cert.get("identity") == "0"
                bad = [k for k, v in cert.items() if k in CERT_PROPS[prop] and v == "0"]
                if cert["kind"] == "ERROR" or bad:
                    c.cert_problem = "certificate %s fails on the implementation's dumped automaton: %r" % (cert["kind"], cert)
        log("%s: %d certificates evaluated on dumped automata (%.1fs)" % (prop, ncert, time.time() - t0))
        ctx.coverage.setdefault("distribution", {})["certificates_checked"] = ncert
    evals, nontrivial, disagreements = 0, set(), 0
    dist = {"inputs": 0, "input_len_sum": 0, "runs_with_error": 0, "compile_errors": 0, "artifact_diffs": 0,
            "programs_verified_isomorphic": nisook, "of_which_renumbered": nisoren}
    for c in usable:
        if c.compile_error is not None:
            dist["compile_errors"] += 1
            if prop == "C12" or c.idx < ncorpus or compile_error_relevant(prop, c.d):
                # C12 owns "output compiles"; other properties report it only where the definition exercises
                # exactly their feature (corpus entry of the property, context for C04, class algebra for C11 ...)
                ctx.violation("compile-error", dict(describe(c), rustc=c.compile_error[-1500:]))
            continue
        if c.impl is None:
            ctx.broken("dump-missing", "no dump for %s" % c.name, describe(c))
            continue
        if c.model.get("modelcerts") is False and prop in CERT_PROPS:
            ctx.broken("model-certificate", "certs_ok_b fails on the model's own automata (hypothesis of lexer_correct)", describe(c))
        art = compare_artifacts(c.impl, c.model, stages) if stages else {}
        if "gencode" in stages and getattr(c, "gcode", None) is not None and c.impl.get("tokens"):
            gp = gencode.compare(c.impl["tokens"], c.name, c.gcode, c.gswitch, expected_action_kinds(c.d))
            dist["generated_code_translated"] = dist.get("generated_code_translated", 0) + 1
            if gp:
                art.setdefault("gencode", []).extend(gp[:3])
        if c.impl.get("harmless_differences"):
            dist["renumberings_tolerated"] = dist.get("renumberings_tolerated", 0) + 1
        stream_viol = False
        for i, (ct, cps, cl) in enumerate(c.inputs):
            I = lines_of(c.impl_runs.get(i, []), "I")
            M = c.model["runs"][i]["M"]
            S = c.model["runs"][i]["S"]
            evals += 1
            dist["inputs"] += 1
            dist["input_len_sum"] += len(cps)
            if any(l.startswith("EI") for l in S):
                dist["runs_with_error"] += 1
            if len([l for l in S if l[0] in "TE"]) >= 2:
                nontrivial.add((c.idx, tuple(cps), ct))
            for pj in projs:
                f = PROJ[pj]
                a, s_, m_ = f(I), f(S), f(M)
                if a != s_:
                    disagreements += 1
                    stream_viol = True
                    ctx.violation("stream:%s" % pj, dict(describe(c, i), projection=pj, expected_by_spec=S,
                                                          observed=I, model=M))
                    break
                if a != m_:
                    disagreements += 1
                    ctx.broken("model-vs-implementation:%s" % pj,
                               "model interpreter and implementation differ although the implementation agrees with Spec",
                               dict(describe(c, i), observed=I, model=M, spec=S))
                    break
            if loc_check:
                for pr in lexcheck.check_locs_independent(cps, I):
                    stream_viol = True
                    ctx.violation("loc", dict(describe(c, i), problem=pr, observed=I))
                    break
            if clone and cl is not None:
                C = lines_of(c.impl_runs.get(i, []), "C")
                items = [l for l in I if not l.startswith("A ")]
                want_items = items[cl:] if cl < len(items) else None
                got_items = [l for l in C if not l.startswith("A ")]
                # original keeps calling next() until 3 Nones; the clone is driven the same way
                if want_items is not None:
                    want_core = [l for l in want_items if l != "N"]
                    got_core = [l for l in got_items if l != "N"]
                    if want_core != got_core or got_items[-1:] != ["N"]:
                        stream_viol = True
                        ctx.violation("clone", dict(describe(c, i), original=I, clone=C))
                # clone's action log: entries logged before the clone point are shared, after: same as original
                la = [l for l in I if l.startswith("A ")]
                lc = [l for l in C if l.startswith("A ")]
                if la != lc and want_items is not None:
                    stream_viol = True
                    ctx.violation("clone-log", dict(describe(c, i), original=I, clone=C))
            if extra:
                extra(ctx, c, i, I, S, M)
        if getattr(c, "cert_problem", None) and not art:
            art = {"certificate": [c.cert_problem]}
        if art and not stream_viol:
            dist["artifact_diffs"] += 1
            # search: more inputs for this definition against Spec (for the first few definitions that differ;
            # a change that affects every definition would otherwise cost one compilation per definition)
            ctx.searches = getattr(ctx, "searches", 0) + 1
            found = search_failing_input(ctx, c, projs, gen) if ctx.searches <= 6 else False
            if not found:
                st = sorted(art)[0]
                ctx.broken("artifact:%s" % st, art[st][0], dict(describe(c), all_differences=art))
    ctx.coverage["evaluations"] += evals
    ctx.coverage["programs"] += len(usable)
    ctx.coverage["distinct_nontrivial"] += len(nontrivial)
    ctx.coverage["disagreements_checked"] += disagreements
    ctx.coverage["rule"] = ("seeded random definitions (lexdef.Gen) + corpus; inputs sampled from the rule languages, "
                            "cut/perturbed, plus random strings; non-trivial = distinct (definition, input, constructor) "
                            "whose reference stream has at least two items")
    dist["model_budget_exceeded_skipped"] = sum(1 for c in cases if c.model.get("skipped"))
    ctx.coverage.setdefault("distribution", {}).update(dict(dist, generator=gen.stats, model_rejected=n_panic,
                                                            not_wf=n_nonwf, corpus=ncorpus, batches=stats["batches"],
                                                            compile_s_max=round(stats["compile_s_max"], 1)))
    if usable:
        c = usable[min(ncorpus, len(usable) - 1)]
        ctx.sample({"definition": lexdef.rust_lexer(c.name, c.d), "input": c.inputs[-1][1],
                    "implementation_stream": lines_of(c.impl_runs.get(len(c.inputs) - 1, []), "I")[:12]})
    shutil.rmtree(os.path.join(BUILD, "work_%s" % prop), ignore_errors=True)
    if len(usable) < max(1, ndefs // 4):
        ctx.broken("generator", "only %d usable definitions out of %d" % (len(usable), len(cases)))
    return usable


def expected_action_kinds(d):
    """which sugar form of the semantic action each rule uses, by action index (= rule order)"""
    out = {}
    for i, (_, r) in enumerate(lexdef.iter_rules(d)):
        k = r['kind'].split(":")
        out[i] = {"skip": "skip", "simple": "simple", "inf": "infallible", "fal": "fallible"}.get(
            k[0], "fallible" if (k[0] == "alt" and k[1] == "1") else "infallible")
    return out


def regex_has(r, kinds):
    if r is None:
        return False
    if r[0] in kinds:
        return True
    return any(regex_has(x, kinds) for x in r[1:] if isinstance(x, tuple))


def compile_error_relevant(prop, d):
    rules = [r for _, r in lexdef.iter_rules(d)]
    lets = [t[2] for t in d if t[0] == 'let'] + [i[2] for t in d if t[0] == 'ruleset' for i in t[2] if i[0] == 'let']
    if prop == "C04":
        return any(r['ctx'] is not None for r in rules)
    if prop == "C11":
        return any(regex_has(r['re'], ('diff',)) or regex_has(r['ctx'], ('diff',)) for r in rules) or any(regex_has(l, ('diff',)) for l in lets)
    if prop == "C13":
        return any(regex_has(r['re'], ('builtin',)) or regex_has(r['ctx'], ('builtin',)) for r in rules)
    return False


def untuple(x):
    """JSON lists back to the tuple/list structure of lexdef"""
    if isinstance(x, list):
        if x and isinstance(x[0], str) and x[0] in ('char', 'str', 'set', 'star', 'plus', 'opt', 'cat', 'or', 'any',
                                                     'eoi', 'diff', 'var', 'builtin'):
            if x[0] == 'set':
                return ('set', [i if isinstance(i, int) else tuple(i) for i in x[1]])
            if x[0] == 'str':
                return ('str', list(x[1]))
            return tuple(untuple(i) for i in x)
        if x and isinstance(x[0], str) and x[0] in ('errtype', 'let', 'rule', 'ruleset'):
            if x[0] == 'ruleset':
                return ('ruleset', x[1], [untuple(i) for i in x[2]])
            return tuple(untuple(i) for i in x)
        return [untuple(i) for i in x]
    if isinstance(x, dict):
        return {k: untuple(v) for k, v in x.items()}
    return x


def flag_witness_inputs(parsed, limit=12):
    """Inputs aimed at a wrong backtrack flag in the DUMPED automaton (rule set Init only): a path from
    the initial state through an accepting state to a state whose flag is false although it should be
    true, followed by a character on which that state has no transition (and the same cut at the end
    of input). On such an input the generated code skips the rewind."""
    dfa = parsed.get("joined")
    if not dfa:
        return []
    n0 = len(parsed["rulesets"][0]["dfa"]) if parsed.get("rulesets") else len(dfa)

    def edges(i):
        st = dfa[i]
        out = [(c, int(t[1:])) for c, t in sorted(st["c"].items())]
        out += [(lo, int(t[1:])) for lo, hi, t in st["r"]]
        if st["a"]:
            used = set(st["c"]) | {x for lo, hi, _ in st["r"] for x in (lo, hi)}
            c = next(x for x in (0x7e, 0x21, 0x23, 0x25, 0x3b) if x not in used)
            if not any(lo <= c <= hi for lo, hi, _ in st["r"]):
                out.append((c, int(st["a"][1:])))
        return [(c, t) for c, t in out if t < n0]
    # BFS over (state, seen an accepting state strictly before)
    from collections import deque
    start = (0, False)
    prev = {start: None}
    dq = deque([start])
    while dq:
        s, seen = dq.popleft()
        for c, t in edges(s):
            nxt = (t, seen or dfa[s]["acc"] != "-")
            if nxt not in prev:
                prev[nxt] = ((s, seen), c)
                dq.append(nxt)
    outs = []
    for (t, seen), _ in list(prev.items()):
        if seen and not dfa[t]["bt"] and dfa[t]["acc"] == "-":
            path = []
            cur = (t, seen)
            while prev[cur] is not None:
                cur, c = prev[cur][0], prev[cur][1]
                path.append(c)
            path.reverse()
            used = set(dfa[t]["c"])
            junk = next(x for x in (0x01, 0x02, 0x7f, 0x40) if x not in used
                        and not any(lo <= x <= hi for lo, hi, _ in dfa[t]["r"]))
            if dfa[t]["a"] is None:
                outs.append(path + [junk])
            outs.append(path)
            if len(outs) >= limit:
                break
    return outs


def table_boundary_inputs(c, words, limit=70):
    """inputs that probe the generated search tables at and beyond their ends (a character below the first
    range, above the last one, char::MAX), alone and after prefixes of words of the rule languages"""
    tr = gencode.Translator(c.impl["tokens"], c.name)
    chars = []
    for pairs in tr.tables.values():
        for x in (pairs[0][0] - 1, pairs[0][0], pairs[-1][1], pairs[-1][1] + 1, 0x10FFFF, 0xF0000, pairs[len(pairs) // 2][1] + 1):
            if 0 <= x <= 0x10FFFF and not (0xD800 <= x <= 0xDFFF) and x not in chars:
                chars.append(x)
    out = []
    for ch in chars:
        out.append([ch])
        out.append([ch, ch])
    for w in words:
        for k in range(1, min(len(w), 4) + 1):
            for ch in chars[:8]:
                out.append(list(w[:k]) + [ch])
    return out[:limit]


def search_failing_input(ctx, c, projs, gen, n=80):
    """An artifact of this definition differs from the model's: look for an input on which the
    implementation departs from Spec (in this property's projection)."""
    ins = gen.inputs(c.d, n, max_len=10)
    try:
        ins = [(0, w) for w in flag_witness_inputs(c.impl)] + ins
    except Exception:
        pass
    try:
        ins = [(0, w) for w in table_boundary_inputs(c, [w for _, w in ins[:6]])] + ins
    except Exception:
        pass
    cc = Case(c.idx, c.d, [(ct, cps, None) for ct, cps in ins])
    run_model([cc], artifacts=False)
    if cc.model.get("skipped"):
        return False
    run_impl([cc], os.path.join(BUILD, "work_%s_search" % ctx.prop))
    shutil.rmtree(os.path.join(BUILD, "work_%s_search" % ctx.prop), ignore_errors=True)
    if cc.compile_error is not None:
        return False
    for i in range(len(cc.inputs)):
        I = lines_of(cc.impl_runs.get(i, []), "I")
        S = cc.model["runs"][i]["S"]
        for pj in projs:
            if PROJ[pj](I) != PROJ[pj](S):
                ctx.violation("stream:%s" % pj, dict(describe(cc, i), projection=pj, expected_by_spec=S, observed=I,
                                                      found_by="search after artifact difference"))
                return True
    return False


def sizes(ctx, quick, thorough):
    return thorough if ctx.tier == "thorough" else quick


def check_C01(ctx):
    nd, ni = sizes(ctx, (120, 22), (1200, 40))
    lexer_check(ctx, dict(p_ctx=0.15, max_rules=5, max_depth=3, kinds=['simple', 'simple', 'inf:ret', 'skip']),
                nd, ni, ["tokens"])


def check_C02(ctx):
    nd, ni = sizes(ctx, (120, 22), (1200, 40))
    lexer_check(ctx, dict(p_ctx=0.0, p_named=0.0, max_rules=2, max_depth=4, p_builtin=0.1, p_diff=0.12, p_any=0.12,
                          p_eoi=0.0, p_template=0.0, kinds=['simple']), nd, ni, ["tokens"])   # `$` is C05's, not C02's


def check_C03(ctx):
    nd, ni = sizes(ctx, (108, 22), (900, 40))
    lexer_check(ctx, dict(p_named=1.0, max_rulesets=5, max_rules=3, max_depth=2, p_alt=0.3,
                          kinds=['inf:sw', 'inf:swret', 'inf:rsw', 'simple', 'inf:ret', 'inf:cont', 'skip']),
                nd, ni, ["full"])


def check_C04(ctx):
    nd, ni = sizes(ctx, (108, 22), (900, 40))
    lexer_check(ctx, dict(p_ctx=0.7, max_rules=4, max_depth=2, kinds=['simple', 'simple', 'inf:ret', 'inf:swret', 'inf:sw']),
                nd, ni, ["full"],
                require=lambda d: any(r['ctx'] for _, r in lexdef.iter_rules(d)))


def check_C05(ctx):
    nd, ni = sizes(ctx, (108, 24), (900, 40))
    lexer_check(ctx, dict(p_eoi=0.45, p_named=0.7, max_rules=3, max_depth=2), nd, ni, ["full"], max_len=6)


def check_C06(ctx):
    nd, ni = sizes(ctx, (90, 24), (750, 40))
    lexer_check(ctx, dict(wide=True, p_wide_char=0.25, p_any=0.2, max_rules=4, max_depth=2), nd, ni, ["full"],
                loc_check=True)


def check_C07(ctx):
    nd, ni = sizes(ctx, (108, 22), (900, 40))
    lexer_check(ctx, dict(p_fallible=0.8, max_rules=4, max_depth=2,
                          kinds=['fal:err', 'fal:ret', 'fal:cont', 'simple', 'inf:cont', 'inf:ret']), nd, ni,
                ["errors"])


def check_C08(ctx):
    nd, ni = sizes(ctx, (108, 22), (900, 40))
    lexer_check(ctx, dict(p_named=1.0, max_rulesets=4, max_rules=3, max_depth=2,
                          kinds=['inf:sw', 'inf:swret', 'simple', 'simple', 'inf:ret', 'inf:cont', 'skip']),
                nd, ni, ["after_error"])


def check_C09(ctx):
    nd, ni = sizes(ctx, (90, 22), (750, 40))

    def extra(ctx, c, i, I, S, M):
        n = len(c.inputs[i][1])
        items = [l for l in I if l.split()[0] in ("T", "EI", "EC")]
        acts = [l for l in I if l.startswith("A ")]
        bad = lexcheck.p_counts(I)
        if bad:
            ctx.violation("no-panic-no-hang", dict(describe(c, i), observed=I))
        elif len(items) > n + 1 or len(acts) > n + 1:
            ctx.violation("progress", dict(describe(c, i), observed=I, items=len(items), actions=len(acts), n=n))
        else:
            # every item accounts for input of its own: items never go back before the end of an earlier one
            pos = 0
            for l in items:
                p = l.split()
                st = int(p[2]) if p[0] in ("T", "EC") else int(p[1])
                en = int(p[5]) if p[0] == "T" else st
                if st < pos:
                    ctx.violation("progress", dict(describe(c, i), observed=I,
                                                   problem="item at byte %d starts before byte %d reached by an earlier item" % (st, pos)))
                    break
                pos = max(pos, en)
    usable = lexer_check(ctx, dict(max_rules=4, max_depth=3, p_any=0.15), nd, ni, ["counts"], extra=extra)
    if not getattr(ctx, "long_done", False):        # once per check, not once per thorough round
        long_inputs(ctx, 20000 if ctx.tier == "quick" else 200000)
        ctx.long_done = True
    # release build too (overflow checks off / optimised code)
    if ctx.tier == "thorough":
        lexer_check(ctx, dict(max_rules=4, max_depth=3, p_any=0.15), nd // 4, ni, ["full"], profile="release",
                    extra=extra)


def long_inputs(ctx, n):
    """C09 on long inputs (implementation only; the reference is quadratic): a single repeated character,
    only unlexable characters, a long lexable text; no panic / hang, at most n+1 items, monotone progress."""
    rng = random.Random(ctx.seed + 9)
    d = [('rule', {'re': ('plus', ('set', [(0x61, 0x63)])), 'ctx': None, 'kind': 'simple:1'}),
         ('rule', {'re': ('cat', ('char', 0x61), ('cat', ('star', ('char', 0x62)), ('char', 0x64))), 'ctx': None, 'kind': 'simple:2'}),
         ('rule', {'re': ('char', 0x20), 'ctx': None, 'kind': 'skip'}),
         # a skipped lexeme that is recovered by rewinding (its accepting state has a way on): thousands in a row
         ('rule', {'re': ('cat', ('char', 0x78), ('opt', ('char', 0x79))), 'ctx': None, 'kind': 'skip'})]
    inputs = [[0x61] * n, [0x3f] * n, [rng.choice([0x61, 0x62, 0x63, 0x20, 0x64]) for _ in range(n)],
              ([0x61] + [0x62] * 50 + [0x20]) * (n // 52), [0x78] * max(n, 200000)]
    c = Case(0, d, [(0, w, None) for w in inputs])
    run_impl([c], os.path.join(BUILD, "work_C09long"), run_timeout_ms=120000)
    shutil.rmtree(os.path.join(BUILD, "work_C09long"), ignore_errors=True)
    if c.compile_error is not None:
        ctx.violation("compile-error", dict(describe(c), rustc=c.compile_error[-1000:]))
        return
    for i, w in enumerate(inputs):
        raw = c.impl_runs.get(i, ["MISSING"])
        I = lines_of(raw, "I")
        items = [l for l in I if l.split()[0] in ("T", "EI", "EC")]
        ctx.coverage["evaluations"] += 1
        if not I or lexcheck.p_counts(raw):
            # no output at all: the process died (stack overflow, abort) or was killed
            ctx.violation("long-input", {"definition": lexdef.rust_lexer(c.name, c.d), "input_length": len(w),
                                         "input_head": w[:20], "problem": "the lexer process produced no result for this input "
                                         "(crashed, e.g. stack overflow, or was killed): %r" % raw[:3]})
            continue
        if lexcheck.p_counts(I) or len(items) > len(w) + 1:
            ctx.violation("long-input", {"definition": lexdef.rust_lexer(c.name, c.d), "input_length": len(w),
                                         "input_head": w[:60], "items": len(items), "bad": lexcheck.p_counts(I)[:3]})
            continue
        pos = 0
        for l in items:
            p = l.split()
            st = int(p[2]) if p[0] in ("T", "EC") else int(p[1])
            en = int(p[5]) if p[0] == "T" else st
            if st < pos:
                ctx.violation("long-input", {"definition": lexdef.rust_lexer(c.name, c.d), "input_length": len(w),
                                             "problem": "item at byte %d before %d" % (st, pos)})
                break
            pos = max(pos, en)
    ctx.coverage.setdefault("distribution", {})["long_input_chars"] = n


def check_C10(ctx):
    nd, ni = sizes(ctx, (108, 22), (900, 40))
    lexer_check(ctx, dict(p_fallible=0.5, p_alt=0.35, max_rules=4, max_depth=2), nd, ni, ["full"], loc_check=True)


EXPANSION_LIMIT_MS = 20000     # "macro expansion finishes within seconds" (processor time of the expanding thread)


def check_C12(ctx):
    nd, ni = sizes(ctx, (120, 12), (1200, 16))
    usable = lexer_check(ctx, dict(p_ctx=0.35, p_builtin=0.15, max_rules=6, max_depth=3, max_rulesets=4), nd, ni, ["counts"])
    # how long the macro itself took (the hook measures the processor time of the expanding thread, so a loaded
    # machine does not matter); the time rustc then needs for the generated code is a different matter
    times = [(c.impl.get("expansion_cpu_ms"), c) for c in usable if c.impl and c.impl.get("expansion_cpu_ms") is not None]
    for ms, c in times:
        if ms > EXPANSION_LIMIT_MS:
            ctx.violation("slow-expansion", dict(describe(c), expansion_cpu_ms=ms, limit_ms=EXPANSION_LIMIT_MS,
                                                 generated_code_bytes=len(c.impl.get("tokens") or "")))
    if times:
        ctx.coverage.setdefault("distribution", {}).update({"expansion_cpu_ms_max": max(t for t, _ in times),
                                                            "expansions_timed": len(times)})
    check_determinism(ctx)


def check_C14(ctx):
    nd, ni = sizes(ctx, (72, 14), (600, 22))

    def four(ctx, gen_opts):
        gen = lexdef.Gen(ctx.seed, **gen_opts)
    usable = lexer_check(ctx, dict(max_rules=4, max_depth=2, wide=True, p_named=0.5), nd, ni * 4, ["noview"],
                         ctors=(0, 1, 2, 3))
    # same input through all four constructors: streams identical up to match_() text
    four_constructors(ctx, nd, ni)


def check_C15(ctx):
    nd, ni = sizes(ctx, (90, 12), (750, 24))
    lexer_check(ctx, dict(max_rules=4, max_depth=2, p_named=0.8, p_fallible=0.3, p_template=0.35,
                          kinds=['inf:sw', 'inf:swret', 'simple', 'simple', 'inf:ret', 'inf:cont', 'skip', 'fal:ret']),
                nd, ni, ["full"], clone=True)
    if not getattr(ctx, "long_done", False):
        long_clone(ctx, 6000 if ctx.tier == "quick" else 60000)
        ctx.long_done = True


def long_clone(ctx, n):
    """C15 on long inputs: a clone taken after the first items and resumed only after the original has run to the
    end (thousands of characters and many token boundaries later) must still yield the original's remaining items"""
    rng = random.Random(ctx.seed + 15)
    d = [('rule', {'re': ('plus', ('set', [(0x61, 0x63)])), 'ctx': None, 'kind': 'simple:1'}),
         ('rule', {'re': ('cat', ('char', 0x61), ('cat', ('star', ('char', 0x62)), ('char', 0x64))), 'ctx': None, 'kind': 'simple:2'}),
         ('rule', {'re': ('char', 0x20), 'ctx': None, 'kind': 'skip'}),
         ('rule', {'re': ('plus', ('set', [(0x30, 0x39)])), 'ctx': ('char', 0x20), 'kind': 'simple:3'})]
    text = []
    while len(text) < n:
        text += rng.choice([[0x61, 0x62, 0x63], [0x61, 0x62, 0x62, 0x64], [0x31, 0x32], [0x63], [0x3f]]) + [0x20]
    inputs = [(ct, text, cl) for ct in (0, 2) for cl in (1, 3, 40)]
    c = Case(0, d, inputs)
    run_impl([c], os.path.join(BUILD, "work_C15long"), run_timeout_ms=120000)
    shutil.rmtree(os.path.join(BUILD, "work_C15long"), ignore_errors=True)
    if c.compile_error is not None:
        ctx.broken("long-clone", "the long-input clone program does not compile: " + c.compile_error[-800:])
        return
    for i, (ct, w, cl) in enumerate(inputs):
        raw = c.impl_runs.get(i, ["MISSING"])
        I = lines_of(raw, "I")
        C = lines_of(raw, "C")
        if not I or lexcheck.p_counts(raw):
            ctx.violation("clone-long-input", {"definition": lexdef.rust_lexer(c.name, c.d), "input_length": len(w),
                                               "problem": "no result for this input (the process crashed or was killed): %r" % raw[:3]})
            break
        items = [l for l in I if not l.startswith("A ")]
        want = [l for l in items[cl:] if l != "N"]
        got = [l for l in C if not l.startswith("A ") and l != "N"]
        ctx.coverage["evaluations"] += 1
        if lexcheck.p_counts(I) or lexcheck.p_counts(C) or want != got:
            k = next((j for j in range(min(len(want), len(got))) if want[j] != got[j]), min(len(want), len(got)))
            ctx.violation("clone-long-input", {"definition": lexdef.rust_lexer(c.name, c.d), "input_length": len(w),
                                               "constructor": ct, "clone_at": cl,
                                               "first_difference_at_item": k, "original_there": want[k:k + 3],
                                               "clone_there": got[k:k + 3], "problems": (lexcheck.p_counts(I) + lexcheck.p_counts(C))[:3]})
            break
    ctx.coverage.setdefault("distribution", {})["long_clone_chars"] = n


def four_constructors(ctx, nd, ni):
    gen = lexdef.Gen(ctx.seed + 1, max_rules=4, max_depth=2, wide=True, p_named=0.5)
    cases = []
    for k in range(nd):
        d = gen.definition()
        ins = gen.inputs(d, ni, max_len=10)
        inputs = []
        for _, cps in ins:
            for ct in (0, 1, 2, 3):
                inputs.append((ct, cps, None))
        cases.append(Case(k, d, inputs))
    run_model(cases, artifacts=False)
    usable = [c for c in cases if not c.model["panic"] and c.model["wf"]]
    run_impl(usable, os.path.join(BUILD, "work_C14b"))
    shutil.rmtree(os.path.join(BUILD, "work_C14b"), ignore_errors=True)
    n = 0
    for c in usable:
        if c.compile_error is not None:
            continue
        for j in range(0, len(c.inputs), 4):
            streams = [PROJ["noview"](lines_of(c.impl_runs.get(j + t, []), "I")) for t in range(4)]
            n += 1
            if any(s != streams[0] for s in streams[1:]):
                ctx.violation("constructors-differ", dict(describe(c, j), streams=streams))
    ctx.coverage["evaluations"] += n * 4
    ctx.coverage.setdefault("distribution", {})["four_constructor_groups"] = n


def check_determinism(ctx):
    """C12: expanding the same definitions in two separate rustc processes gives the same tokens."""
    gen = lexdef.Gen(ctx.seed + 7, p_ctx=0.3, p_builtin=0.2, max_rules=6)
    cases = [Case(i, gen.definition(), []) for i in range(12)]
    run_model(cases, artifacts=False)
    usable = [c for c in cases if not c.model["panic"]]
    toks = []
    for rnd in range(2):
        run_impl(usable, os.path.join(BUILD, "work_C12det%d" % rnd))
        toks.append({c.name: (c.impl or {}).get("tokens") for c in usable})
        shutil.rmtree(os.path.join(BUILD, "work_C12det%d" % rnd), ignore_errors=True)
    n = 0
    for c in usable:
        if toks[0][c.name] is None:
            continue
        n += 1
        if toks[0][c.name] != toks[1][c.name]:
            ctx.violation("nondeterministic-expansion", dict(describe(c)))
    ctx.coverage.setdefault("distribution", {})["determinism_pairs"] = n


def replay(path):
    """Prints the recorded violation and, when it carries a definition and an input, runs both again on the
    current tree: the reference semantics (extracted model) and the real macro + generated lexer. Exit 1 if
    they still differ, 0 if they agree now (or if the replay names only a theorem / stage that no longer checks)."""
    data = json.load(open(path))
    print(json.dumps({k: data[k] for k in data if k in ("property", "key", "kind", "stage", "detail", "definition",
                                                         "input", "expected_by_spec", "observed")}, indent=1)[:6000])
    if "definition_data" not in data or "input" not in data:
        return 0
    build_lexmodel()
    d = untuple(data["definition_data"])
    c = Case(0, d, [(data.get("constructor", 0), data["input"], data.get("clone_at"))])
    run_model([c], artifacts=False)
    if c.model.get("skipped"):
        print("REPLAY: the reference model exceeded its time / memory budget on this input")
        return 0
    run_impl([c], os.path.join(BUILD, "work_replay"))
    shutil.rmtree(os.path.join(BUILD, "work_replay"), ignore_errors=True)
    if c.compile_error is not None:
        print("REPLAY: the definition does not compile on the current tree:\n" + c.compile_error[-1500:])
        return 1
    I = lines_of(c.impl_runs.get(0, []), "I")
    S = c.model["runs"][0]["S"]
    pj = data.get("projection") or "full"
    same = PROJ[pj](I) == PROJ[pj](S) if pj in PROJ else I == S
    print("REPLAY on the current tree (projection %s): %s" % (pj, "implementation and reference agree" if same else "STILL DIFFERENT"))
    print("  reference     :", S[:12])
    print("  implementation:", I[:12])
    return 0 if same else 1


CHECKS = {
    "C01": check_C01, "C02": check_C02, "C03": check_C03, "C04": check_C04, "C05": check_C05, "C06": check_C06,
    "C07": check_C07, "C08": check_C08, "C09": check_C09, "C10": check_C10, "C12": check_C12, "C14": check_C14,
    "C15": check_C15,
}
