//! Independent enumerator of the 20 Rust character predicates and of unicode-width over all
//! Unicode scalar values (does not use char_range_gen). Output: one line per predicate
//! `PRED <name> lo-hi lo-hi ...` (maximal runs of scalar values, surrogate gap splits a run) and
//! `WIDTH lo-hi:w ...` for every maximal run whose width differs from 1.
use unicode_width::UnicodeWidthChar;
use unicode_xid::UnicodeXID;

fn runs<F: Fn(char) -> bool>(f: F) -> Vec<(u32, u32)> {
    let mut out = vec![];
    let mut cur: Option<(u32, u32)> = None;
    for cp in 0..=0x10FFFFu32 {
        match char::from_u32(cp) {
            Some(c) if f(c) => {
                cur = match cur {
                    Some((a, b)) if b + 1 == cp => Some((a, cp)),
                    Some(r) => {
                        out.push(r);
                        Some((cp, cp))
                    }
                    None => Some((cp, cp)),
                }
            }
            _ => {
                if let Some(r) = cur.take() {
                    out.push(r);
                }
            }
        }
    }
    if let Some(r) = cur {
        out.push(r);
    }
    out
}

fn main() {
    let preds: Vec<(&str, Box<dyn Fn(char) -> bool>)> = vec![
        ("alphabetic", Box::new(|c: char| c.is_alphabetic())),
        ("alphanumeric", Box::new(|c: char| c.is_alphanumeric())),
        ("ascii", Box::new(|c: char| c.is_ascii())),
        ("ascii_alphabetic", Box::new(|c: char| c.is_ascii_alphabetic())),
        ("ascii_alphanumeric", Box::new(|c: char| c.is_ascii_alphanumeric())),
        ("ascii_control", Box::new(|c: char| c.is_ascii_control())),
        ("ascii_digit", Box::new(|c: char| c.is_ascii_digit())),
        ("ascii_graphic", Box::new(|c: char| c.is_ascii_graphic())),
        ("ascii_hexdigit", Box::new(|c: char| c.is_ascii_hexdigit())),
        ("ascii_lowercase", Box::new(|c: char| c.is_ascii_lowercase())),
        ("ascii_punctuation", Box::new(|c: char| c.is_ascii_punctuation())),
        ("ascii_uppercase", Box::new(|c: char| c.is_ascii_uppercase())),
        ("ascii_whitespace", Box::new(|c: char| c.is_ascii_whitespace())),
        ("control", Box::new(|c: char| c.is_control())),
        ("lowercase", Box::new(|c: char| c.is_lowercase())),
        ("numeric", Box::new(|c: char| c.is_numeric())),
        ("uppercase", Box::new(|c: char| c.is_uppercase())),
        ("whitespace", Box::new(|c: char| c.is_whitespace())),
        ("XID_Start", Box::new(|c: char| UnicodeXID::is_xid_start(c))),
        ("XID_Continue", Box::new(|c: char| UnicodeXID::is_xid_continue(c))),
    ];
    for (name, f) in preds {
        let rs = runs(f);
        let parts: Vec<String> = rs.iter().map(|(a, b)| format!("{}-{}", a, b)).collect();
        println!("PRED {} {}", name, parts.join(" "));
    }
    for w in [0usize, 2, 3, 4] {
        let rs = runs(|c| UnicodeWidthChar::width(c).unwrap_or(1) == w);
        let parts: Vec<String> = rs.iter().map(|(a, b)| format!("{}-{}:{}", a, b, w)).collect();
        println!("WIDTH {}", parts.join(" "));
    }
}
