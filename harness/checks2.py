"""Component checks: C11 range map / class algebra, C13 built-in tables, C16 grammar, C17 rejection,
C18 table generator."""
import itertools, os, random, re, shutil, subprocess, time
from concurrent.futures import ThreadPoolExecutor

from common import *
import lexdef
import lexcheck
import pipeline
import checks
from checks import describe, lexer_check, sizes
import gencode
from lexcheck import Case, run_model, run_impl, lines_of


# ----------------------------------------------------------------------------- C11

def rm_ops_random(rng, universe, nops):
    ops = []
    for _ in range(nops):
        k = rng.random()
        if k < 0.45:
            a = rng.choice(universe)
            b = rng.choice([x for x in universe if x >= a])
            ops.append("i %d %d %d" % (a, b, rng.randint(0, 3)))
        else:
            n = rng.randint(1, 3)
            tr = []
            for _ in range(n):
                a = rng.choice(universe)
                b = rng.choice([x for x in universe if x >= a])
                tr.append("%d %d %d" % (a, b, rng.randint(4, 7)))
            ops.append(("I " if k < 0.7 else "R ") + ",".join(tr))
    return ";".join(ops)


def rm_ops_exhaustive(universe, length):
    """all sequences of `length` operations with single-range arguments over the universe"""
    ranges = [(a, b) for a in universe for b in universe if a <= b]
    single = ["i %d %d 1" % r for r in ranges] + ["I %d %d 2" % r for r in ranges] + ["R %d %d 0" % r for r in ranges]
    for seq in itertools.product(single, repeat=length):
        yield ";".join(seq)


def check_C11(ctx):
    rng = random.Random(ctx.seed)
    seqs = []
    # exhaustive over a small universe (quick: length 2 over 5 points, thorough: length 3 over 6 points)
    if ctx.tier == "thorough":
        seqs += list(rm_ops_exhaustive([0, 1, 2, 3, 4, 5], 2))
        seqs += list(itertools.islice(rm_ops_exhaustive([0, 2, 3, 5], 3), 0, 60000))
    else:
        seqs += list(rm_ops_exhaustive([0, 1, 2, 3], 2))
    nex = len(seqs)
    full = [0, 1, 0x40, 0x41, 0x5a, 0x60, 0x61, 0x7a, 0x7f, 0x80, 0xD7FF, 0xD800, 0xDFFF, 0xE000, 0x10FFFE, 0x10FFFF]
    for _ in range(600 if ctx.tier == "quick" else 6000):
        seqs.append(rm_ops_random(rng, rng.choice([[1, 2, 3, 4, 5, 6, 7, 8], full, list(range(0, 40, 3))]), rng.randint(2, 7)))
    cmds = "".join("RM %s\n" % s for s in seqs)
    impl = run_incrate_driver("lexgen", cmds).split("\n")
    model = run_lexmodel(cmds).split("\n")
    n = 0
    distinct = set()
    for s, a, b in zip(seqs, impl, model):
        n += 1
        distinct.add(a)
        if a != b:
            ctx.violation("rangemap-ops", {"operations": s, "implementation": a, "model": b,
                                           "note": "RangeMap operation sequence (i = insert, I = insert_ranges, R = remove_ranges); "
                                                   "the model's result is proved well-formed and pointwise correct (props/C11.v)"})
    # malformed results on the implementation side, independently of the model
    for s, a in zip(seqs, impl):
        prev = -1
        for lo, hi in re.findall(r"\[(\d+) (\d+) ", a.split(";")[-2] if ";" in a else a):
            lo, hi = int(lo), int(hi)
            if lo > hi or lo <= prev:
                ctx.violation("rangemap-malformed", {"operations": s, "implementation": a})
                break
            prev = hi
    ctx.coverage["evaluations"] += n
    ctx.coverage["distinct_nontrivial"] += len(distinct)
    ctx.coverage.setdefault("distribution", {}).update({"rangemap_sequences": n, "exhaustive_sequences": nex})
    ctx.sample({"rangemap_ops": seqs[-1], "result": impl[len(seqs) - 1]})
    # class expressions: real regex_to_range_map vs model vs independent evaluation
    gen = lexdef.Gen(ctx.seed, p_wide_char=0.1)
    exprs = []
    fixed = [('diff', ('set', [(0x30, 0x35), (0x37, 0x39)]), ('set', [(0x30, 0x38)])),
             ('diff', ('any',), ('char', 0xD7FF)), ('diff', ('any',), ('char', 0xE000)),
             ('diff', ('diff', ('any',), ('char', 0x61)), ('set', [(0x62, 0x7a)])),
             ('diff', ('set', [(0x61, 0x7a)]), ('set', [(0x61, 0x7a)])),
             ('diff', ('builtin', 'ascii_alphanumeric'), ('builtin', 'ascii_digit')),
             ('or', ('builtin', 'ascii_digit'), ('diff', ('set', [(0x61, 0x66), 0x41]), ('char', 0x63))),
             ('diff', ('set', [(0, 0x10FFFF)]), ('set', [(0x100, 0x10FFFE)]))]
    exprs += fixed
    while len(exprs) < (150 if ctx.tier == "quick" else 1500):
        e = gen.cls(0)
        if e[0] in ('diff', 'or', 'set', 'char', 'any', 'builtin'):
            exprs.append(e)
    cmds_i = "".join("R2M %s\n" % lexdef.rust_regex(e) for e in exprs)
    cmds_m = "".join("R2M %s\n" % lexdef.sexp(e) for e in exprs)
    impl = run_incrate_driver("lexgen", cmds_i).split("\n")
    model = run_lexmodel(cmds_m).split("\n")
    tables = load_builtin_tables()
    for e, a, b in zip(exprs, impl, model):
        ctx.coverage["evaluations"] += 1
        if a != b:
            ctx.violation("class-map", {"class_expression": lexdef.rust_regex(e), "implementation": a, "model": b})
            continue
        if a.startswith("OK"):
            rs = [(int(x), int(y)) for x, y in re.findall(r"\[(\d+) (\d+)\]", a)]
            pts = set([0, 0x10FFFF])
            for lo, hi in rs:
                pts.update([lo, hi, hi + 1, max(lo - 1, 0)])
            for c in lexdef.alphabet_of(e):
                pts.update([c, c + 1, max(c - 1, 0)])
            for c in sorted(pts):
                if c > 0x10FFFF:
                    continue
                want = cmem(e, c, tables)
                got = any(lo <= c <= hi for lo, hi in rs)
                if want != got:
                    ctx.violation("class-membership", {"class_expression": lexdef.rust_regex(e), "code_point": c,
                                                       "expected_member": want, "ranges": a})
                    break
    ctx.coverage.setdefault("distribution", {})["class_expressions"] = len(exprs)
    # classes through the real macro and generated lexers
    nd, ni = sizes(ctx, (24, 14), (200, 30))
    lexer_check(ctx, dict(p_ctx=0.0, p_named=0.0, max_rules=2, max_depth=1, p_diff=0.5, p_builtin=0.1, p_any=0.15,
                          p_eoi=0.0, p_var=0.0, p_template=0.0, p_alias=0.5, kinds=['simple']), nd, ni, ["tokens"])


def load_builtin_tables():
    t = {}
    for line in open(os.path.join(BUILD, "oracle.txt")):
        p = line.split()
        if p and p[0] == "PRED":
            t[p[1]] = [tuple(map(int, x.split("-"))) for x in p[2:]]
    return t


def cmem(e, c, tables):
    t = e[0]
    if t == 'char':
        return c == e[1]
    if t == 'set':
        return any((c == x) if isinstance(x, int) else (x[0] <= c <= x[1]) for x in e[1])
    if t == 'any':
        return c <= 0x10FFFF
    if t == 'builtin':
        return any(lo <= c <= hi for lo, hi in tables[e[1]])
    if t == 'or':
        return cmem(e[1], c, tables) or cmem(e[2], c, tables)
    if t == 'diff':
        return cmem(e[1], c, tables) and not cmem(e[2], c, tables)
    return False


# ----------------------------------------------------------------------------- C13

def parse_repo_tables():
    import gen_coq
    tables = gen_coq.parse_tables()
    names, arms = gen_coq.parse_builtin()
    return {nm: tables[arms[variant]] for nm, variant in names}


def first_table_difference(tbl, orc):
    pts = set([0, 0xD7FF, 0xE000, 0x10FFFF])
    for lo, hi in list(tbl) + list(orc):
        pts.update([lo, hi + 1])
    for c in sorted(pts):
        if c > 0x10FFFF or 0xD800 <= c <= 0xDFFF:
            continue
        a = any(lo <= c <= hi for lo, hi in tbl)
        b = any(lo <= c <= hi for lo, hi in orc)
        if a != b:
            return c, a, b
    return None


def check_C13(ctx):
    oracle = load_builtin_tables()
    try:
        repo_tables = parse_repo_tables()
    except Exception as e:
        ctx.broken("translator", str(e))
        repo_tables = {}
    # (1) table vs oracle, by name (this is what the theorem c13_builtin_exact decides; recomputed here to
    #     produce the failing code point when the theorem no longer compiles)
    for nm in lexdef.BUILTINS:
        if nm not in repo_tables:
            ctx.violation("missing-builtin", {"name": nm})
            continue
        d = first_table_difference(repo_tables[nm], oracle[nm])
        if d:
            ctx.violation("table-differs", {"builtin": nm, "code_point": d[0], "char": "U+%04X" % d[0],
                                            "table_accepts": d[1], "rust_predicate": d[2]})
        prev = -1
        for lo, hi in repo_tables[nm]:
            if lo > hi or lo <= prev:
                ctx.violation("table-malformed", {"builtin": nm, "range": [lo, hi]})
                break
            prev = hi
    # (2) generated lexers, both shapes, alone / combined / in a right context, probed at boundaries
    rng = random.Random(ctx.seed)
    cases = []
    expect = []
    for k, nm in enumerate(lexdef.BUILTINS):
        orc = oracle[nm]
        pts = set()
        for lo, hi in orc + repo_tables.get(nm, []):
            pts.update([lo, hi, hi + 1, max(lo - 1, 0)])
        pts = sorted(c for c in pts if c <= 0x10FFFF and not (0xD800 <= c <= 0xDFFF))
        if ctx.tier == "quick" and len(pts) > 500:
            pts = sorted(rng.sample(pts, 500))
        if ctx.tier == "thorough":
            allsc = [c for c in range(0x110000) if not (0xD800 <= c <= 0xDFFF)]
            pts = allsc
        member = lambda c: any(lo <= c <= hi for lo, hi in orc)
        # alone
        d1 = [('rule', {'re': ('builtin', nm), 'ctx': None, 'kind': 'simple:1'}),
              ('rule', {'re': ('any',), 'ctx': None, 'kind': 'simple:0'})]
        # combined with other classes: forces different piece structure / guard shapes
        d2 = [('rule', {'re': ('diff', ('or', ('builtin', nm), ('set', [(0x21, 0x23)])), ('set', [(0x61, 0x63), 0x4e2d])),
                        'ctx': None, 'kind': 'simple:1'}),
              ('rule', {'re': ('any',), 'ctx': None, 'kind': 'simple:0'})]
        member2 = lambda c, member=member: (member(c) or 0x21 <= c <= 0x23) and not (0x61 <= c <= 0x63 or c == 0x4e2d)
        # in a right context
        d3 = [('rule', {'re': ('char', 0x78), 'ctx': ('builtin', nm), 'kind': 'simple:1'}),
              ('rule', {'re': ('char', 0x78), 'ctx': None, 'kind': 'simple:0'}),
              ('rule', {'re': ('any',), 'ctx': None, 'kind': 'simple:2'})]
        chunks = [pts[i:i + 4000] for i in range(0, len(pts), 4000)]
        for ch in chunks:
            c1 = Case(len(cases), d1, [(0, ch, None)])
            cases.append(c1)
            expect.append(("alone", nm, ch, [1 if member(c) else 0 for c in ch]))
        ch = pts[:2000] if ctx.tier == "quick" else pts[::37]
        cases.append(Case(len(cases), d2, [(0, ch, None)]))
        expect.append(("combined", nm, ch, [1 if member2(c) else 0 for c in ch]))
        ch3 = [c for c in (pts[:600] if ctx.tier == "quick" else pts[::53]) if c != 0x78]
        inp = []
        exp3 = []
        for c in ch3:
            inp += [0x78, c]
            exp3 += [1 if member(c) else 0, 2]
        cases.append(Case(len(cases), d3, [(0, inp, None)]))
        expect.append(("context", nm, inp, exp3))
        # the same class twice in one lexer, once cut off above a mid point: two membership tests whose
        # range lists are in a prefix relation (both rule orders)
        if len(orc) >= 2:
            cut = orc[len(orc) // 2][0]
            # (an optional tail keeps the state after the class alive, so that the ranges lead to a real state
            #  and are compiled into a search table rather than into accepting arms)
            r1 = ('rule', {'re': ('cat', ('cat', ('char', 0x31), ('builtin', nm)), ('opt', ('char', 0x7f))),
                           'ctx': None, 'kind': 'simple:1'})
            r2 = ('rule', {'re': ('cat', ('cat', ('char', 0x32), ('diff', ('builtin', nm), ('set', [(cut, 0x10FFFF)]))),
                                  ('opt', ('char', 0x7f))), 'ctx': None, 'kind': 'simple:2'})
            r0 = ('rule', {'re': ('any',), 'ctx': None, 'kind': 'simple:0'})
            chp = [c for c in (pts[:400] if ctx.tier == "quick" else pts[::71]) if c not in (0x31, 0x32)]
            tail = [c for c in pts if c >= cut][:200]
            chp = chp + [c for c in tail if c not in (0x31, 0x32)]
            for order in ((r1, r2, r0), (r2, r1, r0)):
                inp4, exp4 = [], []
                for c in chp:
                    inp4 += [0x31, c, 0x32, c]
                    exp4 += ([1] if member(c) else [0, 0]) + ([2] if (member(c) and c < cut) else [0, 0])
                cases.append(Case(len(cases), list(order), [(0, inp4, None)]))
                expect.append(("pair", nm, inp4, exp4))
        # the complement and a union with another built-in, each leading to a real state (search tables over ranges
        # that neither built-in has on its own, e.g. ranges that straddle the end of ASCII); every ASCII character
        # is probed besides the boundaries
        ascii_all = [c for c in range(0x80) if c not in (0x33, 0x34)]
        chq = ascii_all + [c for c in (pts[:300] if ctx.tier == "quick" else pts[::97]) if c not in (0x33, 0x34)]
        other = 'control' if nm != 'control' else 'alphabetic'
        mo = lambda c, t=oracle[other]: any(lo <= c <= hi for lo, hi in t)
        rc = ('rule', {'re': ('cat', ('cat', ('char', 0x33), ('diff', ('any',), ('builtin', nm))), ('opt', ('char', 0x7f))),
                       'ctx': None, 'kind': 'simple:1'})
        ru = ('rule', {'re': ('cat', ('cat', ('char', 0x34), ('or', ('builtin', nm), ('builtin', other))), ('opt', ('char', 0x7f))),
                       'ctx': None, 'kind': 'simple:2'})
        r0b = ('rule', {'re': ('any',), 'ctx': None, 'kind': 'simple:0'})
        inp5, exp5 = [], []
        for c in chq:
            inp5 += [0x33, c, 0x34, c]
            exp5 += ([1] if not member(c) else [0, 0]) + ([2] if (member(c) or mo(c)) else [0, 0])
        cases.append(Case(len(cases), [rc, ru, r0b], [(0, inp5, None)]))
        expect.append(("pair", nm, inp5, exp5))
    stats = run_impl(cases, os.path.join(BUILD, "work_C13"), batch_size=4, run_timeout_ms=60000)
    shutil.rmtree(os.path.join(BUILD, "work_C13"), ignore_errors=True)
    nprobe = 0
    shapes = {"alone": 0, "combined": 0, "context": 0, "pair": 0}
    for c, (shape, nm, inp, exp) in zip(cases, expect):
        if c.compile_error is not None:
            ctx.violation("compile-error", dict(describe(c), rustc=c.compile_error[-1500:]))
            continue
        # the generated membership function is the one CharClass.binary_search models, and every table is well formed
        if c.impl and c.impl.get("tokens"):
            try:
                tr = gencode.Translator(c.impl["tokens"], c.name)
                hp = [x for x in tr.helpers() if "BINARY_SEARCH" in x]
            except gencode.Untranslatable as e:
                hp = [str(e)]
            if hp:
                ctx.broken("generated-search-function", hp[0], {"definition": lexdef.rust_lexer(c.name, c.d)})
        I = lines_of(c.impl_runs.get(0, []), "I")
        toks = [int(l.split()[1]) for l in I if l.startswith("T ")]
        if len(toks) != len(exp) or any(not l.startswith("T ") and l != "N" for l in I):
            ctx.violation("probe-stream", {"builtin": nm, "shape": shape, "observed_head": I[:10],
                                           "tokens": len(toks), "expected_tokens": len(exp)})
            continue
        nprobe += len(exp)
        shapes[shape] += 1
        for j, (a, b) in enumerate(zip(toks, exp)):
            if a != b:
                cp = inp[j] if shape not in ("context", "pair") else inp[min(j | 1, len(inp) - 1)]
                ctx.violation("member-differs", {"builtin": nm, "shape": shape, "code_point": cp, "char": "U+%04X" % cp,
                                                 "lexer_says": a, "rust_predicate_says": b,
                                                 "definition": lexdef.rust_lexer(c.name, c.d)})
                break
    ctx.coverage["evaluations"] += nprobe
    ctx.coverage["programs"] += len(cases)
    ctx.coverage["distinct_nontrivial"] += nprobe
    ctx.coverage["exhaustive"] = ctx.tier == "thorough"
    ctx.coverage["rule"] = ("for each of the 20 names: the table of the source tree against the oracle run lists at every "
                            "breakpoint (theorem c13_builtin_exact is the all-scalar-values statement); generated lexers "
                            "probed with the class alone, combined by | and #, and as a right context, at every range "
                            "boundary +-1 (quick: sampled to 500 per name; thorough: all 1,112,064 scalar values)")
    ctx.coverage.setdefault("distribution", {}).update({"probe_chars": nprobe, "lexers_by_shape": shapes})
    ctx.sample({"builtin": "alphabetic", "probe": [0x41, 0x5b, 0x870, 0x4e2d], "expected": [1, 0, 1, 1]})


# ----------------------------------------------------------------------------- C18

def check_C18(ctx):
    rng = random.Random(ctx.seed)
    special = [0, 1, 2, 0x7f, 0x80, 0xD7FE, 0xD7FF, 0xD800, 0xD801, 0xDFFE, 0xDFFF, 0xE000, 0xE001, 0x10FFFE, 0x10FFFF,
               0x110000]
    bsets = []
    # exhaustive: every subset of size <= k of the special boundaries (quick k = 2, thorough k = 3)
    k = 3 if ctx.tier == "thorough" else 2
    for r in range(0, k + 1):
        for comb in itertools.combinations(special, r):
            bsets.append(list(comb))
    nex = len(bsets)
    for _ in range(20 if ctx.tier == "quick" else 200):
        n = rng.randint(1, 8)
        bsets.append(sorted(rng.sample(range(0, 0x110001), n)))
    # the real loop takes ~0.5 s per predicate in a debug build: cap the number in the quick tier
    if ctx.tier == "quick":
        keep = [b for b in bsets[:nex] if len(b) <= 1] + rng.sample([b for b in bsets[:nex] if len(b) == 2], 40) + bsets[nex:]
        bsets = keep
    cmds = "".join(" ".join(map(str, b)) + "\n" for b in bsets)
    real_names = ["ALPHABETIC", "ALPHANUMERIC", "ASCII", "ASCII_ALPHABETIC", "ASCII_ALPHANUMERIC", "ASCII_CONTROL",
                  "ASCII_DIGIT", "ASCII_GRAPHIC", "ASCII_HEXDIGIT", "ASCII_LOWERCASE", "ASCII_PUNCTUATION",
                  "ASCII_UPPERCASE", "ASCII_WHITESPACE", "CONTROL", "LOWERCASE", "NUMERIC", "UPPERCASE", "WHITESPACE",
                  "XID_START", "XID_CONTINUE"]
    cmds_i = cmds + "".join("REAL %s\n" % n for n in real_names)
    impl = run_incrate_driver("char_range_gen", cmds_i, timeout=3000).split("\n")

    def model_run(lines):
        return run_lexmodel("".join("GEN %s\n" % l for l in lines)).split("\n")
    lines = [" ".join(map(str, b)) for b in bsets]
    shards = [lines[i::NPROC] for i in range(NPROC)]
    with ThreadPoolExecutor(NPROC) as ex:
        outs = list(ex.map(model_run, shards))
    model = [None] * len(lines)
    for si, out in enumerate(outs):
        for j, o in enumerate(out[:len(shards[si])]):
            model[si + j * NPROC] = o
    n = 0
    for b, a, m in zip(bsets, impl, model):
        n += 1
        want = expected_ranges(b)
        if a != want:
            ctx.violation("generator-output", {"predicate_true_on": "[b0,b1) [b2,b3) ... with boundaries %r" % b,
                                               "implementation": a, "expected_unique_maximal_ranges": want, "model": m})
        elif a != m:
            ctx.broken("model-vs-implementation", "generate_char_fn_ranges model differs", {"boundaries": b, "impl": a, "model": m})
    # the 20 real predicates: hook output vs oracle enumeration vs char_ranges.rs
    oracle = load_builtin_tables()
    lower = {"XID_START": "XID_Start", "XID_CONTINUE": "XID_Continue"}
    try:
        import gen_coq
        repo_tables = gen_coq.parse_tables()
    except Exception as e:
        repo_tables = {}
        ctx.broken("translator", str(e))
    for nm, a in zip(real_names, impl[len(bsets):]):
        n += 1
        key = lower.get(nm, nm.lower())
        got = [(int(x), int(y)) for x, y in re.findall(r"\[(\d+) (\d+)\]", a)]
        d = first_table_difference(got, oracle[key])
        if d:
            ctx.violation("real-predicate", {"predicate": nm, "code_point": d[0], "generator_says": d[1], "predicate_says": d[2]})
        prev = None
        for lo, hi in got:
            if lo > hi or (prev is not None and not any((c < 0xD800 or c > 0xDFFF) for c in range(prev + 1, lo))):
                ctx.violation("real-predicate-shape", {"predicate": nm, "range": [lo, hi], "previous_end": prev})
                break
            prev = hi
        if nm in repo_tables and repo_tables[nm] != got:
            ctx.violation("tables-not-regenerated", {"table": nm, "note": "char_ranges.rs differs from the generator's output",
                                                     "first_generated": got[:3], "first_in_file": repo_tables[nm][:3]})
    # what the generator *prints* (its main): the text of crates/lexgen/src/char_ranges.rs up to layout
    r = run(["cargo", "run", "--offline", "-q", "-p", "char_range_gen"], cwd=REPO,
            env={"RUSTFLAGS": "--cfg %s" % GUARD, "CARGO_TARGET_DIR": TARGET}, timeout=1800)
    norm = lambda t: re.sub(r",([\])])", r"\1", re.sub(r"\s+", "", t))
    committed = open(os.path.join(REPO, "crates", "lexgen", "src", "char_ranges.rs")).read()
    n += 1
    # cargo's own messages go to the same pipe only on failure (-q)
    if r.returncode != 0 or norm(r.stdout) != norm(committed):
        a, b = norm(r.stdout), norm(committed)
        k = next((i for i in range(min(len(a), len(b))) if a[i] != b[i]), min(len(a), len(b)))
        ctx.violation("printed-tables", {"note": "the text printed by `cargo run -p char_range_gen` is not char_ranges.rs (compared "
                                                 "without white space and trailing commas)",
                                         "exit_code": r.returncode, "printed_around_first_difference": a[max(0, k - 80):k + 80],
                                         "file_around_first_difference": b[max(0, k - 80):k + 80]})
    ctx.coverage["evaluations"] += n
    ctx.coverage["distinct_nontrivial"] += len(set(impl[:len(bsets)]))
    ctx.coverage["rule"] = ("predicates given by boundary lists over {0,1,2,0x7f,0x80, around the surrogate gap, char::MAX}: all "
                            "subsets up to size %d (quick: all of size <= 1, 40 sampled of size 2) plus random boundaries, and "
                            "the 20 real predicates; expected output computed independently" % k)
    ctx.coverage.setdefault("distribution", {}).update({"boundary_predicates": len(bsets), "real_predicates": 20})
    ctx.sample({"boundaries": bsets[-1], "implementation": impl[len(bsets) - 1]})


def expected_ranges(bounds):
    """independent computation of the unique maximal scalar-endpoint ranges of the predicate that is true on
    [b0,b1) [b2,b3) ..."""
    bs = sorted(bounds)
    ivs = []
    for i in range(0, len(bs), 2):
        lo = bs[i]
        hi = (bs[i + 1] - 1) if i + 1 < len(bs) else 0x10FFFF
        hi = min(hi, 0x10FFFF)
        if lo <= hi:
            ivs.append((lo, hi))
    # restrict to scalars, then merge runs separated only by surrogates
    out = []
    for lo, hi in ivs:
        if 0xD800 <= lo <= 0xDFFF:
            lo = 0xE000
        if 0xD800 <= hi <= 0xDFFF:
            hi = 0xD7FF
        if lo > hi:
            continue
        if out:
            plo, phi = out[-1]
            gap = [c for c in (phi + 1, lo - 1) if phi < c < lo]
            only_surr = all(0xD800 <= c <= 0xDFFF for c in range(phi + 1, lo)) if lo - phi - 1 <= 0x800 else False
            if lo <= phi + 1 or only_surr:
                out[-1] = (plo, max(phi, hi))
                continue
        out.append((lo, hi))
    return "".join("[%d %d]" % r for r in out)


# ----------------------------------------------------------------------------- C16

def tok_text(r, level=0, extra=None):
    """token text of the minimal (or redundantly parenthesised) printing, in the driver's TOKS syntax"""
    t = r[0]
    if t == 'char':
        s, p = "c%d" % r[1], 4
    elif t == 'str':
        s, p = "s" + (",".join(map(str, r[1])) if r[1] else "-"), 4
    elif t == 'set':
        s = "[ " + " ".join(("c%d" % x) if isinstance(x, int) else "c%d - c%d" % x for x in r[1]) + " ]"
        p = 4
    elif t == 'any':
        s, p = "_", 4
    elif t == 'eoi':
        s, p = "$", 4
    elif t == 'var':
        s, p = "$ i" + r[1], 4
    elif t == 'builtin':
        s, p = "$ $ i" + r[1], 4
    elif t in ('star', 'plus', 'opt'):
        s, p = tok_text(r[1], 2, extra) + " " + {'star': '*', 'plus': '+', 'opt': '?'}[t], 2
    elif t == 'cat':
        s, p = tok_text(r[1], 1, extra) + " " + tok_text(r[2], 2, extra), 1
    elif t == 'or':
        s, p = tok_text(r[1], 0, extra) + " | " + tok_text(r[2], 1, extra), 0
    elif t == 'diff':
        s, p = tok_text(r[1], 3, extra) + " # " + tok_text(r[2], 4, extra), 3
    if p < level or (extra is not None and extra()):
        s = "( " + s + " )"
    return s


def def_to_dtoks(d, extra=None):
    """definition (lexdef form) -> definition-level token text for the model (DTOKS)"""
    out = []

    def rule_toks(r):
        t = tok_text(r['re'], 0, extra)
        if r['ctx'] is not None:
            t += " o3 " + tok_text(r['ctx'], 0, extra)
        k = r['kind'].split(":")[0]
        if k == 'alt':
            k = 'fal' if r['kind'].split(":")[1] == '1' else 'inf'
        t += {"skip": " o0", "simple": " o1 o10 o0", "inf": " o4 o10 o0", "fal": " o1 ? o10 o0"}[k]
        return t
    for top in d:
        if top[0] == 'errtype':
            out.append("itype iError o1 o10 o2")
        elif top[0] == 'let':
            out.append("ilet i%s o1 %s o2" % (top[1], tok_text(top[2], 0, extra)))
        elif top[0] == 'rule':
            out.append(rule_toks(top[1]))
        elif top[0] == 'ruleset':
            body = []
            for it in top[2]:
                if it[0] == 'let':
                    body.append("ilet i%s o1 %s o2" % (it[1], tok_text(it[2], 0, extra)))
                else:
                    body.append(rule_toks(it[1]))
            out.append("irule i%s { %s }" % (top[1], " ".join(body)))
    return " ".join(out)


def toks_to_rust(toks):
    out = []
    for w in toks.split():
        if w[0] == 'c' and w[1:].isdigit():
            out.append("'\\u{%x}'" % int(w[1:]))
        elif w[0] == 's' and (w[1:] == '-' or w[1:2].isdigit()):
            out.append('"%s"' % ("" if w[1:] == "-" else "".join("\\u{%x}" % int(x) for x in w[1:].split(","))))
        elif w[0] == 'i':
            out.append(w[1:])
        elif w[0] == 'o':
            out.append({"0": ",", "1": "=", "2": ";", "3": ">", "4": "=>", "10": "x"}.get(w[1:], ","))
        else:
            out.append(w)
    s = " ".join(out)
    return s.replace("$ $ ", "$$").replace("$ ", "$") if False else s


def random_tree(rng, depth, with_eoi):
    if depth <= 0 or rng.random() < 0.25:
        x = rng.random()
        if x < 0.3:
            return ('char', rng.choice([97, 98, 99]))
        if x < 0.45:
            return ('str', [rng.choice([97, 98]) for _ in range(rng.randint(0, 2))])
        if x < 0.6:
            return ('set', [rng.choice([97, (97, 99), (98, 98)]) for _ in range(rng.randint(0, 3))])
        if x < 0.7:
            return ('any',)
        if x < 0.8:
            return ('var', rng.choice(['x', 'yy']))
        if x < 0.9:
            return ('builtin', rng.choice(['alphabetic', 'ascii_digit']))
        return ('eoi',) if with_eoi else ('char', 100)
    x = rng.random()
    if x < 0.3:
        return ('cat', random_tree(rng, depth - 1, with_eoi), random_tree(rng, depth - 1, with_eoi))
    if x < 0.55:
        return ('or', random_tree(rng, depth - 1, with_eoi), random_tree(rng, depth - 1, with_eoi))
    if x < 0.75:
        return (rng.choice(['star', 'plus', 'opt']), random_tree(rng, depth - 1, with_eoi))
    return ('diff', random_tree(rng, depth - 1, with_eoi), random_tree(rng, depth - 1, with_eoi))


def eoi_safe(r, tokens):
    """the printed token list has no `$` (end of input) directly followed by `$`"""
    ws = tokens.split()
    return True


def check_C16(ctx):
    rng = random.Random(ctx.seed)
    n = 400 if ctx.tier == "quick" else 5000
    items = []
    for i in range(n):
        r = random_tree(rng, rng.randint(0, 4), with_eoi=rng.random() < 0.3)
        mode = rng.random()
        extra = None if mode < 0.5 else (lambda: rng.random() < 0.3)
        toks = tok_text(r, 0, extra)
        items.append((r, toks, "print"))
    # perturbed token lists: parser model vs real parser on ill-formed / other inputs too
    pool = ["c97", "c98", "s97", "[", "]", "(", ")", "$", "_", "|", "*", "+", "?", "#", "-", "ix", "o0"]
    for i in range(n // 2):
        if rng.random() < 0.5:
            ws = tok_text(random_tree(rng, 3, True)).split()
            for _ in range(rng.randint(1, 2)):
                j = rng.randrange(len(ws) + 1)
                if rng.random() < 0.5 and ws:
                    del ws[min(j, len(ws) - 1)]
                else:
                    ws.insert(j, rng.choice(pool))
        else:
            ws = [rng.choice(pool) for _ in range(rng.randint(1, 7))]
        # keep brackets balanced textually, otherwise rustc's tokenizer (not the parser) rejects
        depth = []
        ok = True
        for w in ws:
            if w in "([":
                depth.append(w)
            elif w in ")]":
                if not depth or {"(": ")", "[": "]"}[depth.pop()] != w:
                    ok = False
                    break
        if not ok or depth:
            continue
        items.append((None, " ".join(ws), "perturbed"))
    cmds_m = "".join("TOKS %s\n" % t for _, t, _ in items)
    cmds_i = "".join("REGEX %s\n" % toks_to_rust(t) for _, t, _ in items)
    model = run_lexmodel(cmds_m).split("\n")
    impl = run_incrate_driver("lexgen", cmds_i).split("\n")
    nrt, nok = 0, 0
    for (r, toks, kind), a, m in zip(items, impl, model):
        ctx.coverage["evaluations"] += 1
        if a == "PANIC":
            a = "ERR"
        if a != m:
            ctx.violation("parser-differs", {"tokens": toks, "rust_source": toks_to_rust(toks), "real_parser": a,
                                             "model_parser": m, "kind": kind})
            continue
        if a.startswith("OK"):
            nok += 1
        if kind == "print":
            want = "OK " + lexdef.sexp(r)
            ws = toks.split()
            bare_eoi_before_dollar = any(ws[i] == "$" and ws[i + 1] == "$" and (i == 0 or ws[i - 1] != "$") and
                                         not (i + 2 < len(ws) and ws[i + 2].startswith("i") and False)
                                         for i in range(len(ws) - 1))
            if a != want:
                # only trees that put a bare `$` directly before another `$` are outside the round-trip statement
                if contains_eoi_then_dollar(r):
                    continue
                ctx.violation("roundtrip", {"tree": lexdef.sexp(r), "printed": toks_to_rust(toks), "parsed": a})
            else:
                nrt += 1
    ctx.coverage["distinct_nontrivial"] += len(set(t for _, t, _ in items))
    ctx.coverage.setdefault("distribution", {}).update({"printed_trees": sum(1 for i in items if i[2] == "print"),
                                                        "perturbed_token_lists": sum(1 for i in items if i[2] != "print"),
                                                        "roundtrips_ok": nrt, "accepted": nok})
    ctx.sample({"tokens": items[0][1], "real_parser": impl[0]})
    # the definition-level grammar (rule sets, lets, right-hand-side forms, error type)
    check_def_grammar(ctx)
    # lets: factoring subtrees into variables, scoping
    check_lets(ctx)


PRECS = {'or': 0, 'cat': 1, 'star': 2, 'plus': 2, 'opt': 2, 'diff': 3}


def ends_eoi(l, r):
    """ParserProofs.ends_eoi: the minimal printing at level l ends with a bare `$`"""
    if PRECS.get(r[0], 4) < l:
        return False
    t = r[0]
    if t == 'eoi':
        return True
    if t == 'cat':
        return ends_eoi(2, r[2])
    if t == 'or':
        return ends_eoi(1, r[2])
    if t == 'diff':
        return ends_eoi(4, r[2])
    return False


def starts_dol(l, r):
    if PRECS.get(r[0], 4) < l:
        return False
    t = r[0]
    if t in ('eoi', 'var', 'builtin'):
        return True
    if t in ('star', 'plus', 'opt'):
        return starts_dol(2, r[1])
    if t == 'cat':
        return starts_dol(1, r[1])
    if t == 'or':
        return starts_dol(0, r[1])
    if t == 'diff':
        return starts_dol(3, r[1])
    return False


def eoi_safe_p(r):
    """ParserProofs.eoi_safe' (the side condition of the round-trip theorems)"""
    t = r[0]
    if t == 'cat':
        return not (ends_eoi(1, r[1]) and starts_dol(2, r[2])) and eoi_safe_p(r[1]) and eoi_safe_p(r[2])
    if t in ('star', 'plus', 'opt'):
        return eoi_safe_p(r[1])
    if t in ('or', 'diff'):
        return eoi_safe_p(r[1]) and eoi_safe_p(r[2])
    return True


def contains_eoi_then_dollar(r):
    return not eoi_safe_p(r)


def def_stream_in_scope(ws):
    """DefParser.v treats a right-hand side / the error type as ONE opaque token (o10; rendered `x`) and an
    identifier token as a non-keyword identifier. A perturbed stream is compared only when that reading is
    the one syn has too: every o10 stands exactly where an expression (or the error type) is expected and is
    followed by the terminator, every `=>` / rule-level `=` / `=?` is followed by exactly one o10, and the
    keywords `let` / `type` are not used where syn wants an identifier. Everything else is Rust-expression
    territory (`=> * x`, `=> 'c'?`, `$ x` with x the placeholder ...): syn's job, not modelled, skipped."""
    n = len(ws)
    for i, w in enumerate(ws):
        prev = ws[i - 1] if i else None
        nxt = ws[i + 1] if i + 1 < n else None
        if w == "o10":
            if prev == "?":
                if i < 2 or ws[i - 2] != "o1":
                    return False
            elif prev not in ("o4", "o1"):
                return False
            if nxt not in ("o0", "o2"):
                return False
        elif w == "o4":
            if nxt != "o10":
                return False
        elif w == "o1":
            is_let = i >= 2 and ws[i - 2] == "ilet" and ws[i - 1].startswith("i")
            if not is_let and not (nxt == "o10" or (nxt == "?" and i + 2 < n and ws[i + 2] == "o10")):
                return False
        elif w in ("ilet", "itype") and prev in ("$", "ilet", "irule", "itype"):
            return False
    return True


def check_def_grammar(ctx, only_malformed=False):
    """real make_lexer_parser vs the model DefParser.parse_def on printed definitions and on perturbed
    token streams (ill-formed ones included): same verdict, same AST"""
    rng = random.Random(ctx.seed + 11)
    n = 120 if ctx.tier == "quick" else 1500
    gen = lexdef.Gen(ctx.seed + 11, max_rules=3, max_depth=2, p_named=0.6, p_ctx=0.3, p_fallible=0.4, p_template=0.0)
    items = []
    nskip = 0
    pool = ["c97", "s98", "[", "]", "(", ")", "$", "_", "|", "*", "+", "?", "#", "-", "ix", "ilet", "irule", "itype",
            "iError", "o0", "o1", "o2", "o3", "o4", "o10", "{", "}"]
    while len(items) < n:
        d = gen.definition()
        toks = def_to_dtoks(d, None if rng.random() < 0.6 else (lambda: rng.random() < 0.2))
        if not only_malformed:
            items.append((toks, "printed"))
        ws = toks.split()
        for _ in range(rng.randint(1, 2)):
            j = rng.randrange(len(ws) + 1)
            if rng.random() < 0.55 and ws:
                del ws[min(j, len(ws) - 1)]
            else:
                ws.insert(j, rng.choice(pool))
        depth, ok = [], True
        for w in ws:
            if w in "([{":
                depth.append(w)
            elif w in ")]}":
                if not depth or {"(": ")", "[": "]", "{": "}"}[depth.pop()] != w:
                    ok = False
                    break
        if ok and not depth:
            if def_stream_in_scope(ws):
                items.append((" ".join(ws), "perturbed"))
            else:
                nskip += 1
    cmds_m = "".join("DTOKS %s\n" % t for t, _ in items)
    cmds_i = "".join("PARSE L -> T; %s\n" % toks_to_rust(t) for t, _ in items)
    model = run_lexmodel(cmds_m).split("\n")
    impl = run_incrate_driver("lexgen", cmds_i).split("\n")
    nok = nrej = 0
    for (toks, kind), a, m in zip(items, impl, model):
        ctx.coverage["evaluations"] += 1
        if a == "PANIC":
            a = "ERR"          # the parser panics on some malformed right-hand sides: a rejection
        if a != m:
            ctx.violation("def-parser-differs", {"tokens": toks, "rust_source": "L -> T; " + toks_to_rust(toks),
                                                 "real_parser": a, "model_parser": m, "kind": kind})
            continue
        if kind == "printed" and a == "ERR":
            ctx.violation("def-roundtrip", {"tokens": toks, "rust_source": toks_to_rust(toks), "real_parser": a})
        nok += a.startswith("OK")
        nrej += a == "ERR"
    ctx.coverage.setdefault("distribution", {}).update({"def_token_streams": len(items), "def_accepted": nok,
                                                        "def_rejected_by_both": nrej,
                                                        "def_streams_outside_model_skipped": nskip})


def subst(r, env):
    t = r[0]
    if t == 'var':
        return subst(env[r[1]], env) if r[1] in env else r
    if t in ('star', 'plus', 'opt'):
        return (t, subst(r[1], env))
    if t in ('cat', 'or', 'diff'):
        return (t, subst(r[1], env), subst(r[2], env))
    return r


def inline_lets(d):
    """the same definition with every variable replaced by its binding (scoping: top-level lets visible
    later everywhere, rule-set lets only in their rule set)"""
    out = []
    env = {}
    for top in d:
        if top[0] == 'let':
            env[top[1]] = top[2]
        elif top[0] == 'rule':
            r = top[1]
            out.append(('rule', {'re': subst(r['re'], env), 'ctx': subst(r['ctx'], env) if r['ctx'] else None, 'kind': r['kind']}))
        elif top[0] == 'ruleset':
            lenv = dict(env)
            items = []
            for it in top[2]:
                if it[0] == 'let':
                    lenv[it[1]] = it[2]
                else:
                    r = it[1]
                    items.append(('rule', {'re': subst(r['re'], lenv), 'ctx': subst(r['ctx'], lenv) if r['ctx'] else None,
                                           'kind': r['kind']}))
            out.append(('ruleset', top[1], items))
        else:
            out.append(top)
    return out


def check_lets(ctx):
    nd, ni = sizes(ctx, (16, 10), (150, 25))
    gen = lexdef.Gen(ctx.seed + 3, p_var=0.6, max_rules=3, max_depth=3, p_named=0.7, p_shared=0.6, p_ctx=0.2)
    cases = []
    while len(cases) < 2 * nd:
        d = gen.definition()
        if not any(t[0] == 'let' or (t[0] == 'ruleset' and any(i[0] == 'let' for i in t[2])) for t in d):
            continue
        ins = [(ct, cps, None) for ct, cps in gen.inputs(d, ni, max_len=10)]
        cases.append(Case(len(cases), d, ins))
        cases.append(Case(len(cases), inline_lets(d), ins))
    run_model(cases, artifacts=False)
    run_impl(cases, os.path.join(BUILD, "work_C16"))
    shutil.rmtree(os.path.join(BUILD, "work_C16"), ignore_errors=True)
    npairs = 0
    for a, b in zip(cases[0::2], cases[1::2]):
        if a.model["panic"] or b.model["panic"] or not a.model["wf"]:
            continue
        if a.compile_error or b.compile_error:
            ctx.violation("let-compile", dict(describe(a), rustc=(a.compile_error or b.compile_error)[-1200:]))
            continue
        npairs += 1
        for i in range(len(a.inputs)):
            ia = lines_of(a.impl_runs.get(i, []), "I")
            ib = lines_of(b.impl_runs.get(i, []), "I")
            sa = a.model["runs"][i]["S"]
            ctx.coverage["evaluations"] += 1
            # the definition with variables and the one with the variables written out must behave alike; when both
            # differ from the reference in the same way the cause is not the scoping of variables (the inlined
            # definition has none) and belongs to another property
            if ia != ib:
                ctx.violation("let-factoring", dict(describe(a, i), with_lets=ia, inlined=ib, spec=sa,
                                                     inlined_definition=lexdef.rust_lexer(b.name, b.d)))
                break
    ctx.coverage["programs"] += len(cases)
    ctx.coverage.setdefault("distribution", {})["let_pairs"] = npairs


# ----------------------------------------------------------------------------- C17

def mutate(rng, d):
    """one static violation injected at a random position; returns (kind, definition) or None"""
    d = [t if t[0] != 'ruleset' else ('ruleset', t[1], list(t[2])) for t in d]
    rules = [(ti, None) for ti, t in enumerate(d) if t[0] == 'rule'] + \
            [(ti, ri) for ti, t in enumerate(d) if t[0] == 'ruleset' for ri, it in enumerate(t[2]) if it[0] == 'rule']
    rulesets = [ti for ti, t in enumerate(d) if t[0] == 'ruleset']
    kind = rng.choice(['unbound_var', 'unbound_var_ctx', 'unknown_builtin', 'diff_non_class', 'dup_top_var',
                       'dup_local_var', 'shadow_var', 'dup_ruleset', 'first_not_init', 'mixed', 'dup_errtype',
                       'unbound_in_unused_let', 'builtin_in_unused_let', 'var_other_ruleset'])

    def get_rule(pos):
        ti, ri = pos
        return d[ti][1] if ri is None else d[ti][2][ri][1]

    def set_rule(pos, r):
        ti, ri = pos
        if ri is None:
            d[ti] = ('rule', r)
        else:
            d[ti][2][ri] = ('rule', r)

    def wrap(re, bad):
        x = rng.random()
        if x < 0.3:
            return ('cat', re, bad)
        if x < 0.6:
            return ('or', bad, re)
        if x < 0.8:
            return ('cat', ('star', bad), re)
        return ('cat', ('opt', ('cat', re, bad)), re)
    if kind in ('unbound_var', 'unknown_builtin', 'diff_non_class', 'unbound_var_ctx'):
        if not rules:
            return None
        bad = {'unbound_var': ('var', 'nope'), 'unbound_var_ctx': ('var', 'nope'), 'unknown_builtin': ('builtin', 'nope'),
               'diff_non_class': ('diff', ('char', 97), rng.choice([('str', [97, 98]), ('star', ('char', 97)),
                                                                   ('cat', ('char', 97), ('char', 98)), ('eoi',),
                                                                   ('str', [98]), ('str', [233])]))}[kind]
        # the operand that is not a class reached through one or two levels of variables (agent10-C17: a variable bound
        # to a one-character string was accepted under `#`)
        if kind == 'diff_non_class' and rng.random() < 0.4:
            d.insert(0, ('let', 'ncv', bad[2]))
            rules = [(ti + 1, ri) for ti, ri in rules]
            if rng.random() < 0.4:
                d.insert(1, ('let', 'ncw', ('var', 'ncv')))
                rules = [(ti + 1, ri) for ti, ri in rules]
                bad = ('diff', bad[1], ('var', 'ncw'))
            else:
                bad = ('diff', bad[1], ('var', 'ncv'))
        # the offending leaf also as an operand of `#` in every position: right operand of a chain whose left part is
        # already the empty class, left operand, operand of a nested `#`, under `|` inside an operand
        pos = rng.choice(rules)
        r = dict(get_rule(pos))
        if rng.random() < 0.4:
            leaf = bad[2] if kind == 'diff_non_class' else bad
            empty = ('diff', ('set', [(97, 99)]), ('set', [(97, 122)]))
            bad = rng.choice([('diff', empty, leaf), ('diff', leaf, ('char', 97)), ('diff', ('any',), ('diff', ('char', 97), leaf)),
                              ('diff', ('or', ('char', 97), leaf), ('char', 98)), ('diff', ('set', [(97, 122)]), ('or', leaf, ('char', 97)))])
        if kind == 'unbound_var_ctx':
            r['ctx'] = wrap(r['ctx'], bad) if r['ctx'] else bad
        else:
            r['re'] = wrap(r['re'], bad)
        set_rule(pos, r)
        return kind, d
    if kind == 'dup_top_var':
        pos = rng.randrange(len(d) + 1)
        d.insert(pos, ('let', 'dup', ('char', 97)))
        pos2 = rng.randrange(len(d) + 1)
        d.insert(pos2, ('let', 'dup', ('char', 98)))
        return kind, d
    if kind in ('dup_local_var', 'shadow_var'):
        if not rulesets:
            return None
        ti = rng.choice(rulesets)
        items = d[ti][2]
        items.insert(rng.randrange(len(items) + 1), ('let', 'dup', ('char', 97)))
        if kind == 'dup_local_var':
            items.insert(rng.randrange(len(items) + 1), ('let', 'dup', ('char', 98)))
        else:
            d.insert(rng.randrange(ti + 1), ('let', 'dup', ('char', 98)))
        return kind, d
    if kind == 'dup_ruleset':
        if not rulesets:
            return None
        ti = rng.choice(rulesets)
        d.insert(rng.randrange(ti + 1, len(d) + 1), ('ruleset', d[ti][1], [('rule', {'re': ('char', 97), 'ctx': None, 'kind': 'skip'})]))
        return kind, d
    if kind == 'first_not_init':
        if not rulesets:
            return None
        ti = rulesets[0]
        if rng.random() < 0.5 and len(rulesets) > 1:
            d[rulesets[0]], d[rulesets[1]] = d[rulesets[1]], d[rulesets[0]]
        else:
            d[ti] = ('ruleset', 'Start', d[ti][2])
            # switches to rule set 0 still name the first rule set
        return kind, d
    if kind == 'mixed':
        if not rulesets:
            return None
        d.insert(rng.randrange(len(d) + 1), ('rule', {'re': ('char', 97), 'ctx': None, 'kind': 'skip'}))
        return kind, d
    if kind == 'dup_errtype':
        d.insert(rng.randrange(len(d) + 1), ('errtype',))
        d.insert(rng.randrange(len(d) + 1), ('errtype',))
        return kind, d
    if kind in ('unbound_in_unused_let', 'builtin_in_unused_let'):
        bad = ('var', 'nope') if kind == 'unbound_in_unused_let' else ('builtin', 'nope')
        if rulesets and rng.random() < 0.5:
            ti = rng.choice(rulesets)
            d[ti][2].insert(rng.randrange(len(d[ti][2]) + 1), ('let', 'unused', bad))
        else:
            d.insert(rng.randrange(len(d) + 1), ('let', 'unused', bad))
        return kind, d
    if kind == 'var_other_ruleset':
        if len(rulesets) < 2:
            return None
        a, b = rulesets[0], rulesets[1]
        d[b][2].insert(0, ('let', 'localb', ('char', 98)))
        d[a][2].append(('rule', {'re': ('cat', ('char', 97), ('var', 'localb')), 'ctx': None, 'kind': 'skip'}))
        return kind, d
    return None


SYNTAX_MUTATIONS = [
    ("missing_arrow", lambda s: s.replace("-> Tok;", "Tok;", 1)),
    ("missing_semicolon", lambda s: s.replace("-> Tok;", "-> Tok", 1)),
    ("rule_keyword", lambda s: s.replace("rule Init", "rules Init", 1) if "rule Init" in s else None),
    ("missing_rule_comma", lambda s: re.sub(r" = Tok\((\d+)\),", r" = Tok(\1)", s, count=1) if re.search(r" = Tok\(\d+\),", s) else None),
    ("dangling_or", lambda s: re.sub(r"(\n\s+)('\\u\{[0-9a-f]+\}')", r"\1| \2", s, count=1)),
    ("unclosed_postfix", lambda s: re.sub(r"(\n\s+)('\\u\{[0-9a-f]+\}')", r"\1* \2", s, count=1)),
    ("bad_charset", lambda s: s.replace("['", "['a' - ", 1) if "['" in s else None),
    ("let_without_eq", lambda s: re.sub(r"let (\w+) =", r"let \1", s, count=1) if "let " in s else None),
    ("type_error_syntax", lambda s: s.replace("type Error = u32;", "type Error u32;", 1) if "type Error" in s else None),
]


def compile_single(paths, workdir, name, src):
    d = os.path.join(workdir, name)
    os.makedirs(d, exist_ok=True)
    p = os.path.join(d, "prog.rs")
    with open(p, "w") as f:
        f.write(src)
    rc, out, secs = pipeline.rustc_compile(p, os.path.join(d, "prog"), d, paths, timeout=120)
    return rc, out


def check_C17(ctx):
    rng = random.Random(ctx.seed)
    n = 120 if ctx.tier == "quick" else 1200
    gen = lexdef.Gen(ctx.seed, max_rules=3, max_depth=2, p_named=0.7, p_ctx=0.3, p_diff=0.02, p_builtin=0.05)
    muts = []
    tries = 0
    while len(muts) < n and tries < n * 20:
        tries += 1
        d = gen.definition()
        m = mutate(rng, d)
        if m:
            muts.append(m)
    cases = [Case(i, d, []) for i, (k, d) in enumerate(muts)]
    # the well-formed originals must be well-formed: only mutants whose model verdict we can read are used
    run_model(cases, artifacts=False)
    paths = build_repo()
    work = os.path.join(BUILD, "work_C17")
    shutil.rmtree(work, ignore_errors=True)
    os.makedirs(work)

    def comp(c):
        src = pipeline.rust_program([(c.name, c.d)])
        return compile_single(paths, work, c.name, src)
    with ThreadPoolExecutor(NPROC) as ex:
        results = list(ex.map(comp, cases))
    by_kind = {}
    for (kind, d), c, (rc, out) in zip(muts, cases, results):
        ctx.coverage["evaluations"] += 1
        st = by_kind.setdefault(kind, {"n": 0, "rejected": 0, "model_rejects": 0})
        st["n"] += 1
        rejected = rc != 0
        macro_error = ("proc macro panicked" in out) or ("error: " in out and "lexer!" in out) or rejected
        model_rejects = c.model["panic"] is not None
        st["rejected"] += rejected
        st["model_rejects"] += model_rejects
        if model_rejects != rejected:
            ctx.broken("model-vs-implementation:reject", "model verdict %s, rustc %s" % (c.model["panic"], "rejects" if rejected else "accepts"),
                       dict(describe(c), violation=kind, rustc=out[-800:]))
        if not rejected:
            key = "accepted:" + ("unused-let" if kind in ('unbound_in_unused_let', 'builtin_in_unused_let') else kind)
            ctx.violation(key, dict(describe(c), violation=kind,
                                    note="definition with a static violation was compiled into a lexer"))
    # malformed syntax: only the real macro (the definition-level grammar is not modelled)
    syn = []
    g2 = lexdef.Gen(ctx.seed + 5, max_rules=3, max_depth=2, p_named=0.6, p_fallible=0.5)
    while len(syn) < (40 if ctx.tier == "quick" else 400):
        d = g2.definition()
        src = pipeline.rust_program([("LS%d" % len(syn), d)])
        nm, f = rng.choice(SYNTAX_MUTATIONS)
        new = f(src)
        if new is None or new == src:
            continue
        syn.append((nm, "LS%d" % len(syn), new))
    with ThreadPoolExecutor(NPROC) as ex:
        results = list(ex.map(lambda x: compile_single(paths, work, x[1], x[2]), syn))
    for (nm, name, src), (rc, out) in zip(syn, results):
        ctx.coverage["evaluations"] += 1
        st = by_kind.setdefault("syntax:" + nm, {"n": 0, "rejected": 0})
        st["n"] += 1
        st["rejected"] += rc != 0
        if rc == 0:
            ctx.violation("accepted:syntax:" + nm, {"violation": "malformed syntax (%s)" % nm, "source": src[src.index("lexer! {"):][:1500]})
    shutil.rmtree(work, ignore_errors=True)
    check_def_grammar(ctx, only_malformed=True)
    ctx.coverage["programs"] += len(cases) + len(syn)
    ctx.coverage["distinct_nontrivial"] += len(by_kind)
    ctx.coverage["rule"] = ("well-formed random definitions with ONE injected static violation at a random position (14 kinds) "
                            "compiled one by one by rustc with the real macro; the model's verdict (Panic) is compared; malformed "
                            "syntax only through rustc; distinct = violation kinds exercised")
    ctx.coverage.setdefault("distribution", {})["by_violation"] = by_kind
    ctx.sample({"violation": muts[0][0], "definition": lexdef.rust_lexer("L0", muts[0][1])[:800]})


checks.CHECKS.update({"C11": check_C11, "C13": check_C13, "C16": check_C16, "C17": check_C17, "C18": check_C18})
