#!/usr/bin/env python3
"""Writes /verif/MANIFEST.json from the table below (kept in one place so that the manifest is valid at
all times)."""
import json, os
V = os.path.dirname(os.path.dirname(os.path.abspath(__file__)))
P = {
 "C01": ("proof of the backtrack-elision analysis (flags sound and precise for every DFA) + Thompson/subset theorems of C02; "
         "the run-time simulation theorem (generated next() = maximal-munch Spec for all inputs) under the scanner-facts interface; "
         "correspondence: NFA exact, DFA/flags/simplified DFA under labels, proved-sound certificate checkers on the dumped automata, "
         "token streams impl = model = Spec", "Coq proof (work-list invariant; simulation) + certificate checkers + differential"),
 "C02": ("proof: NFA of a rule = Spec.lang of its regex for every regex/word (Thompson, with variables), any DFA passing the proved-sound "
         "subset checker accepts exactly the matching rules in order after every word; language equalities for interchangeable regexes; "
         "correspondence: implementation's NFA equals the model's, checker run on the implementation's own DFA + state map", 
         "Coq proof (structural induction, edge ownership) + proved-sound checker on dumped automata"),
 "C03": ("proof: add_dfa offsets, simplify index shifts and inlining renumbering commute with dispatch (the stored number selects the arm "
         "of the intended state) for every DFA; correspondence: dispatch certificate on the implementation's dumped arms/switch table, "
         "streams with switching action histories", "Coq proof (counting lemmas on index lists) + dispatch certificate + differential"),
 "C04": ("proof: context automata are covered by the Thompson and subset theorems; simulation theorem includes context gating; "
         "correspondence: context DFAs under labels + checker, streams of lexers with contexts in every priority position", 
         "Coq proof + proved-sound checker + differential"),
 "C05": ("proof: fused stream (None only with the done flag; done => None forever) for every program and action; end-of-input cases of the "
         "simulation theorem; correspondence: streams with inputs cut at every point, extra next() calls after None", "Coq proof + differential"),
 "C06": ("proof: location primitives (advance/advance_all, byte index = sum of utf-8 lengths), simulation invariant l_mend = loc_of_prefix(consumed); "
         "correspondence: every Loc recomputed by an independent scan, lexeme = input slice = match_()", "Coq proof + differential with independent recomputation"),
 "C07": ("simulation theorem: error items and their locations equal Spec's; correspondence: error items (kind, payload, Loc) impl = model = Spec "
         "with fallible rules", "Coq proof + differential"),
 "C08": ("simulation theorem: state after InvalidToken equals Spec state (position after the examined text, Init, user state untouched); "
         "correspondence: streams after errors on multi-rule-set definitions", "Coq proof + differential"),
 "C09": ("proof: fuel bound / no Panic outcome from the simulation theorem; correspondence: item and action counts <= n+1, no panic/hang, debug and release",
         "Coq proof + differential under watchdog"),
 "C10": ("proof: user state only changed by actions, sugar forms = expansions, action log equality from the simulation theorem; correspondence: full action logs",
         "Coq proof + differential"),
 "C11": ("proof: insert/insert_ranges/remove_ranges preserve well-formedness and have their pointwise meaning for all maps; regex_to_range_map = reference "
         "membership at every code point; both lookup shapes = membership; correspondence: exhaustive + random op sequences and class expressions through the in-crate driver",
         "Coq proof (induction on fuel/lists, lia) + differential through in-crate hook"),
 "C12": ("proof: termination of the work-list algorithms (fuel always suffices), determinism by construction; whether generated Rust compiles is decided by rustc on every sampled definition (test, not proof)",
         "Coq proof (termination measures) + rustc under watchdog + double expansion"),
 "C13": ("proof: tables re-translated from char_ranges.rs/builtin.rs agree with the Rust predicates' truth tables on every scalar value, for guard chain and binary search (kernel-evaluated decision lifted by soundness lemma); "
         "correspondence: generated lexers probed alone / combined / as right context", "Coq proof by reflection (vm_compute) over regenerated tables + probes"),
 "C14": ("proof: non-interference of the input field (constructors differ only there) for text-blind actions; correspondence: four constructors on the same inputs",
         "Coq proof + differential"),
 "C15": ("proof: the remaining stream is a function of the lexer value (run_n composition); correspondence: clone at random points, both continue identically",
         "Coq proof + differential with clones"),
 "C16": ("proof: parse(print(t)) = t for the minimal printer and for any redundant parenthesisation, all trees; correspondence: real parser vs model parser on printed and perturbed token lists, let-factoring pairs",
         "Coq proof (precedence-climbing round trip) + differential through in-crate hook"),
 "C17": ("proof: each class of static violation at any position makes the model of lexer() return Panic; full-strength statement refuted (unused let) and recorded as known finding; correspondence: mutation stream through rustc",
         "Coq proof + mutation differential through rustc"),
 "C18": ("proof: for every predicate the generator model emits the unique sorted, maximal, scalar-endpoint range list with exact membership; correspondence: hook on boundary predicates and the 20 real predicates",
         "Coq proof (loop invariant over N.iter) + differential through in-crate hook"),
}
RUNTIME = ("C01", "C03", "C04", "C05", "C06", "C07", "C08", "C09", "C10", "C14", "C15")
RT_TEXT = (" End to end: lexer_correct_model (the model of the whole macro pipeline yields, for every well-formed definition and every input, "
           "the stream of the reference semantics) and generated_code_correct_model (the same for the generated code as syntax trees, GenCode.v). "
           "Tie: the macro's real token stream is translated into those trees on every run (harness/gencode.py) and must equal GenCode.gen_program run on the "
           "implementation's own dumped automata; crates/lexgen_util/src/lib.rs is translated method by method (gen/GenUtil.v) and proved equal to the "
           "model's operations (GenUtilProofs.v); the program built from the implementation's dumped simplified DFA is verified to be the model's up to a renaming of "
           "states by the proved-sound prog_iso_b (ProgIso.v: impl_program_correct, impl_generated_code_correct); proved-sound certificate checkers on the dumped automata.")
RT_TECH = " + generated-code translator (token stream -> GenCode trees) + run-time library translated and proved equal"
checks = []
for pid in sorted(P):
    text, tech = P[pid]
    if pid in RUNTIME:
        text, tech = text + RT_TEXT, tech + RT_TECH
    if pid == "C12":
        text = text.replace("proof: termination of the work-list algorithms (fuel always suffices)",
                            "proof: termination of the work-list algorithms, the subset construction included (measure 2^|NFA| - |finished|; at most 2^|NFA| states; the model's fuel is an artefact)")
    if pid == "C16":
        text += "; scoping of let: variable/definition interchangeability, visibility theorems, same rule sets => same lexer (ScopingFacts.v)"
    has_props = os.path.exists(os.path.join(V, "coq", "props", pid + ".v"))
    checks.append({
        "property_id": pid,
        "quick_cmd": "bin/vcheck %s quick" % pid,
        "thorough_cmd": "bin/vcheck %s thorough" % pid,
        "evidence_file": "evidence/%s.json" % pid,
        "replay_cmd_template": "bin/vcheck replay {path}",
        "engine": "coq+correspondence",
        "level_claimed": {"category": "proof" if has_props else "translation_validation",
                          "text": text if has_props else "(theorem file not yet in the build: correspondence only) " + text,
                          "design_ref": "DESIGN.md section 7 (%s), sections 3-6" % pid},
        "level_note": ("theorems are about the Gallina model (coq/theories) and about regenerated files; tie to /repo: gen/*.v (tables, constants, lexgen_util methods) regenerated by harness/gen_coq.py + gen_util.py on every run, the generated code translated by harness/gencode.py, "
                       "hooks under cfg(lexgen_verif) dump the real macro's artifacts, generated lexers run on sampled inputs; Print Assumptions: closed under the global context; "
                       "trusted: Coq kernel + vm_compute, translator, extraction (ExtrOcamlBasic) + OCaml driver, harness, rustc/std semantics, unicode-width/xid oracles"),
        "technique": tech,
    })
m = {
 "version": 1,
 "setup_cmd": "bin/vcheck setup",
 "hooks": {"guard": "lexgen_verif",
           "enable": "RUSTFLAGS=\"--cfg lexgen_verif\" cargo build/test --offline (harness/common.py build_repo, run_incrate_driver); dumps go to $LEXGEN_VERIF_DUMP",
           "baseline_off_cmd": "cd /repo && cargo test --workspace --no-fail-fast --offline",
           "source_commits": ["1f25b14", "c0ade79", "0326570"],
           "add_only": True},
 "engines": [{"name": "coq+correspondence", "path": "coq/ harness/ bin/vcheck",
              "serves_properties": sorted(P),
              "kind_free_text": "Coq 8.16 development (model, Spec, proofs, props/Cxx.v), extraction to OCaml, Python harness driving the real macro inside rustc with cfg(lexgen_verif) hooks"}],
 "checks": checks,
 "notes": "Every check: regenerates coq/gen from /repo, full make, compiles props/<id>.v and reads Print Assumptions, greps for forbidden vernacular, rebuilds /repo with hooks, runs the property's correspondence. known_findings.json lists the one unrepaired finding (C17 unused let) and the repaired defects.",
 "not_applicable": [],
}
json.dump(m, open(os.path.join(V, "MANIFEST.json"), "w"), indent=1)
print("MANIFEST.json written: %d checks" % len(checks))
