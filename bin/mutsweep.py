#!/usr/bin/env python3
"""Development tool (not a registered check): a mechanical mutation sweep over /repo's sources.

  mutsweep.py gen  [N]        sample N single-token / single-statement mutants  -> $W/mutants.json
  mutsweep.py run  [LANES]    for each mutant, in a scratch worktree: does it compile, do the 119 tests still
                              pass; when they do, run the quick checks of every property anchored in the mutated
                              file against the worktree (LEXVERIF_REPO) from a scratch copy of /verif
  mutsweep.py report          summary -> stdout and /verif/seeded/sweep/summary.json

Everything lives under $W (default /tmp/msweep), outside /repo and /verif, and `mutsweep.py clean` removes it.
Survivors (tests pass, no check fires) are listed for triage: each is either an equivalent / property-irrelevant
change or a gap in the checks."""
import json, os, random, re, shutil, subprocess, sys, threading, time

W = os.environ.get("MSWEEP_DIR", "/tmp/msweep")
VERIF = os.path.dirname(os.path.dirname(os.path.abspath(__file__)))
REPO = "/repo"
FILES = {   # file -> sampling weight
    "crates/lexgen/src/range_map.rs": 3, "crates/lexgen/src/regex_to_nfa.rs": 3, "crates/lexgen/src/nfa.rs": 3,
    "crates/lexgen/src/nfa_to_dfa.rs": 3, "crates/lexgen/src/dfa.rs": 3, "crates/lexgen/src/dfa/backtrack.rs": 3,
    "crates/lexgen/src/dfa/simplify.rs": 3, "crates/lexgen/src/dfa/codegen.rs": 4,
    "crates/lexgen/src/dfa/codegen/ctx.rs": 2, "crates/lexgen/src/dfa/codegen/search_table.rs": 3,
    "crates/lexgen/src/right_ctx.rs": 3, "crates/lexgen/src/lib.rs": 3, "crates/lexgen/src/ast.rs": 3,
    "crates/lexgen/src/builtin.rs": 1, "crates/lexgen/src/semantic_action_table.rs": 1,
    "crates/lexgen_util/src/lib.rs": 5, "crates/char_range_gen/src/main.rs": 2,
}
OPS = [
    (r"<=", ["<"]), (r"(?<![<-])>=", [">"]), (r"(?<= )<(?= )", ["<="]), (r"(?<= )>(?= )", [">="]),
    (r"==", ["!="]), (r"!=", ["=="]), (r"&&", ["||"]), (r"\|\|", ["&&"]),
    (r"\+ 1\b", ["", "+ 2"]), (r"- 1\b", ["", "+ 1"]), (r"\+= 1\b", ["+= 2", "+= 0"]),
    (r"\btrue\b", ["false"]), (r"\bfalse\b", ["true"]),
    (r"\bbreak\b", ["continue"]), (r"\bcontinue\b", ["break"]),
    (r"\.min\(", [".max("]), (r"\.max\(", [".min("]),
    (r"\.is_some\(\)", [".is_none()"]), (r"\.is_none\(\)", [".is_some()"]), (r"\.is_empty\(\)", [".len() == 1"]),
    (r"(?<![\w.])!(?=[a-zA-Z_(])", [""]),
    (r"\b0\b", ["1"]), (r"\b1\b", ["0"]),
]


def props_of(path):
    out = []
    for line in open(os.path.join(VERIF, "properties.jsonl")):
        p = json.loads(line)
        if path in (p.get("anchors") or {}).get("files", []):
            out.append(p["id"])
    if path.startswith("crates/lexgen/") and "C01" not in out:
        out.append("C01")
    if "search_table" in path or "builtin" in path:
        out += [p for p in ("C13", "C11") if p not in out]
    return sorted(set(out))


def code_lines(text):
    """(index, line) of mutable lines: not comments, attributes, test modules, verification hooks."""
    lines = text.split("\n")
    out, skip_depth, depth, in_skip = [], None, 0, False
    i = 0
    pending_skip = False
    while i < len(lines):
        l = lines[i]
        s = l.strip()
        if re.match(r"#\[cfg\((test|lexgen_verif)\)\]", s) or s == "#[test]" or "cfg!(lexgen_verif)" in s \
                or re.match(r"impl.*\bDisplay for\b", s):          # debug printing is not part of any property
            pending_skip = True
        opens, closes = l.count("{"), l.count("}")
        if pending_skip and not in_skip:
            if opens > closes:
                in_skip, skip_depth, pending_skip = True, depth, False
            elif s.endswith(";") and not s.startswith("#["):
                pending_skip = False
                depth += opens - closes
                i += 1
                continue
        depth += opens - closes
        if in_skip:
            if depth <= skip_depth:
                in_skip = False
        elif not pending_skip and s and not s.startswith("//") and not s.startswith("#[") and "verif::" not in s \
                and not s.startswith("use ") and "panic!" not in s and "assert" not in s:
            out.append(i)
        i += 1
    return lines, out


def gen(n):
    rnd = random.Random(int(os.environ.get("MSWEEP_SEED", "7")))
    cands = []
    for path, w in FILES.items():
        full = os.path.join(REPO, path)
        if not os.path.exists(full):
            continue
        lines, idxs = code_lines(open(full).read())
        for i in idxs:
            code = lines[i].split("//")[0]
            # token mutations (outside string literals)
            nostr = re.sub(r'"(\\.|[^"\\])*"', lambda m: " " * len(m.group(0)), code)
            nostr = re.sub(r"'(\\.|[^'\\])'", lambda m: " " * len(m.group(0)), nostr)
            for pat, reps in OPS:
                for m in re.finditer(pat, nostr):
                    for r in reps:
                        new = code[:m.start()] + r + code[m.end():]
                        cands.append((w, path, i, "tok:%s->%s" % (m.group(0), r or "(removed)"), lines[i], new + lines[i][len(code):]))
            # statement deletion: a one-line statement that is a call or an assignment
            s = code.strip()
            if s.endswith(";") and not s.startswith(("let ", "return", "use ", "pub ", "const ", "static ", "type ", "}")) \
                    and s.count("(") == s.count(")") and s.count("{") == s.count("}") and (("(" in s) or (" = " in s) or ("+=" in s)):
                cands.append((w, path, i, "del-stmt", lines[i], re.match(r"\s*", lines[i]).group(0) + "// (statement removed)"))
    rnd.shuffle(cands)
    # weighted sample without replacement, at most 2 mutants per line
    per_line, chosen = {}, []
    pool = [(rnd.random() ** (1.0 / c[0]), c) for c in cands]
    pool.sort(key=lambda x: -x[0])
    for _, c in pool:
        k = (c[1], c[2])
        if per_line.get(k, 0) >= 2:
            continue
        per_line[k] = per_line.get(k, 0) + 1
        chosen.append(c)
        if len(chosen) >= n:
            break
    os.makedirs(W, exist_ok=True)
    muts = [{"id": "m%04d" % j, "file": c[1], "line": c[2] + 1, "op": c[3], "old": c[4], "new": c[5], "props": props_of(c[1])}
            for j, c in enumerate(chosen)]
    json.dump(muts, open(os.path.join(W, "mutants.json"), "w"), indent=1)
    print("%d candidates, %d sampled" % (len(cands), len(muts)))
    by = {}
    for m in muts:
        by[m["file"]] = by.get(m["file"], 0) + 1
    for f, k in sorted(by.items()):
        print("  %3d %s" % (k, f))


def sh(cmd, cwd=None, env=None, timeout=None):
    e = dict(os.environ, CARGO_NET_OFFLINE="true")
    if env:
        e.update(env)
    try:
        r = subprocess.run(cmd, cwd=cwd, env=e, shell=isinstance(cmd, str), stdout=subprocess.PIPE, stderr=subprocess.STDOUT,
                           text=True, errors="replace", timeout=timeout)
        return r.returncode, r.stdout
    except subprocess.TimeoutExpired as ex:
        return 124, (ex.stdout or "") if isinstance(ex.stdout, str) else "timeout"


def lane(k, queue, lock, done_ids):
    wt = os.path.join(W, "wt_%d" % k)
    vf = os.path.join(W, "verif_%d" % k)
    tgt = os.path.join(W, "target_%d" % k)
    if not os.path.exists(wt):
        sh(["git", "-C", REPO, "worktree", "add", "--detach", wt, "HEAD"])
    sh("rsync -a --delete --exclude .git --exclude _build/target --exclude replays --exclude _build/seedlogs %s/ %s/" % (VERIF, vf))
    while True:
        with lock:
            if not queue:
                return
            m = queue.pop(0)
        if m["id"] in done_ids:
            continue
        res = dict(m)
        path = os.path.join(wt, m["file"])
        sh(["git", "-C", wt, "checkout", "--", "."])
        lines = open(path).read().split("\n")
        if lines[m["line"] - 1] != m["old"]:
            res["status"] = "stale"
        else:
            lines[m["line"] - 1] = m["new"]
            open(path, "w").write("\n".join(lines))
            t0 = time.time()
            rc, out = sh("ulimit -v 8000000; exec timeout -k 5 400 cargo test --workspace --no-fail-fast --offline 2>&1", cwd=wt, env={"CARGO_TARGET_DIR": tgt}, timeout=900)
            passed = sum(int(x) for x in re.findall(r"^test result: \w+\. (\d+) passed", out, re.M))
            failed = sum(int(x) for x in re.findall(r"^test result: \w+\. \d+ passed; (\d+) failed", out, re.M))
            res["tests_s"] = round(time.time() - t0, 1)
            if rc in (124, 137):
                res["status"] = "tests-timeout"
            elif "error: could not compile" in out or re.search(r"^error(\[E\d+\])?:", out, re.M) and passed == 0:
                res["status"] = "stillborn"
            elif failed or rc != 0 or passed != 119:
                res["status"] = "killed-by-tests"
                res["tests"] = "%d passed %d failed rc=%d" % (passed, failed, rc)
            else:
                res["status"] = "passes-tests"
                res["checks"] = {}
                for p in m["props"]:
                    env = {"LEXVERIF_REPO": wt}
                    if not os.environ.get("MSWEEP_REAL") and \
                            not (p in ("C13", "C18") and ("builtin" in m["file"] or "char_range" in m["file"])):
                        env["LEXVERIF_DEV_SKIP_PROOF"] = "1"      # default: skip the proof side (and the translators)
                    t1 = time.time()
                    rc2, o2 = sh("ulimit -v 16000000; exec timeout -k 5 1400 bin/vcheck %s quick" % p, cwd=vf, env=env, timeout=1500)
                    v = [l for l in o2.splitlines() if l.startswith("VIOLATION")]
                    res["checks"][p] = {"rc": rc2, "violations": len(v), "nofail": sum("no-failing-input-found" in l for l in v),
                                        "s": round(time.time() - t1, 1)}
                    if rc2 != 0:
                        # first detail line of the replay for triage
                        mm = re.search(r"replay=(\S+)", v[0]) if v else None
                        if mm and os.path.exists(os.path.join(vf, mm.group(1)) if not mm.group(1).startswith("/") else mm.group(1)):
                            rp = mm.group(1) if mm.group(1).startswith("/") else os.path.join(vf, mm.group(1))
                            res["checks"][p]["replay_head"] = open(rp).read()[:400]
                        break       # detected; no need to run the remaining properties
                res["detected"] = any(c["rc"] != 0 for c in res["checks"].values())
        sh(["git", "-C", wt, "checkout", "--", "."])
        with lock:
            open(os.path.join(W, "results.jsonl"), "a").write(json.dumps(res) + "\n")
            print("%s %-45s L%-4d %-22s %-16s %s" % (m["id"], m["file"][-45:], m["line"], m["op"][:22], res["status"],
                                                  "" if "checks" not in res else ("DETECTED by " + [p for p, c in res["checks"].items() if c["rc"] != 0][0]
                                                                                 if res["detected"] else "SURVIVED " + ",".join(res["checks"]))), flush=True)


def run(lanes):
    muts = json.load(open(os.path.join(W, "mutants.json")))
    done = set()
    rp = os.path.join(W, "results.jsonl")
    if os.path.exists(rp):
        done = {json.loads(l)["id"] for l in open(rp)}
    lock = threading.Lock()
    queue = [m for m in muts if m["id"] not in done]
    ths = [threading.Thread(target=lane, args=(k, queue, lock, done)) for k in range(lanes)]
    for t in ths:
        t.start()
        time.sleep(2)
    for t in ths:
        t.join()


def report():
    res = [json.loads(l) for l in open(os.path.join(W, "results.jsonl"))]
    cnt = {}
    for r in res:
        s = r["status"] if r["status"] != "passes-tests" else ("detected" if r["detected"] else "survived")
        cnt[s] = cnt.get(s, 0) + 1
    print(cnt)
    surv = [r for r in res if r["status"] == "passes-tests" and not r["detected"]]
    for r in surv:
        print("SURVIVED %s %s:%d %s\n   - %s\n   + %s" % (r["id"], r["file"], r["line"], r["op"], r["old"].strip(), r["new"].strip()))
    os.makedirs(os.path.join(VERIF, "seeded", "sweep"), exist_ok=True)
    json.dump({"counts": cnt, "results": res}, open(os.path.join(VERIF, "seeded", "sweep", "summary.json"), "w"), indent=1)


def clean():
    for k in range(32):
        wt = os.path.join(W, "wt_%d" % k)
        if os.path.exists(wt):
            sh(["git", "-C", REPO, "worktree", "remove", "--force", wt])
    shutil.rmtree(W, ignore_errors=True)
    sh(["git", "-C", REPO, "worktree", "prune"])


if __name__ == "__main__":
    cmd = sys.argv[1]
    if cmd == "gen":
        gen(int(sys.argv[2]) if len(sys.argv) > 2 else 120)
    elif cmd == "run":
        run(int(sys.argv[2]) if len(sys.argv) > 2 else 4)
    elif cmd == "report":
        report()
    elif cmd == "clean":
        clean()
