#!/usr/bin/env python3
"""Writes coq/props/Cxx.v for the properties decided by the run-time simulation theorem. The statements
are written out in full here (pinned); every proof is `exact <lemma>`."""
import os
P = os.path.join(os.path.dirname(os.path.dirname(os.path.abspath(__file__))), "coq", "props")

IMPORTS = """From LexVerif Require Import Base CharClass RangeMap Regex Spec SpecExec LexSpec Nfa Dfa NfaToDfa NfaSem Codegen
     Runtime ScanIface RulesetSem Driver SpecDef ClassAlgProofs RuntimeProofs RuntimeLemmas ScanOkProofs
     RulesetSemProofs LexSpecProofs LexSpecFacts SpecInvariants EndToEnd EndToEndModel Instance Harness
     GenCode GenCodeProofs GenCodeChecks ProgIso GenUtilProofs.
From LexVerif.Gen Require Import GenTables GenConsts GenUtil.
"""

def sim_thm(p):
    return """
(* ------------------------------------------------------------------------------------------
   The run-time theorem (L7): for any program satisfying the scanner facts [scan_ok] (proved for
   every compiled definition whose automata pass the certificates: %(p)s_compiled_scan_ok below),
   for ALL inputs of scalar values, user states and action functions, the generated next() and
   the reference semantics produce the same item and end in related states; iterated: the same
   stream. No fuel is exhausted and no Panic outcome (failed unwrap / index / slice) occurs. *)
Theorem %(p)s_next_simulates :
  forall (benv : builtin_env) (width : N -> N) (tab_width : N) (T E U : Type) (prog : program)
         (rss : list (list crule)) (cidx : nat -> option nat) (entry : nat -> nat)
         (At : nat -> list N -> nat -> Prop) (actions : nat -> action T E U),
  scan_ok benv prog rss cidx entry At ->
  (forall (a : nat) (v : view) (u : U) (n : nat),
      a_switch (actions a v u) = Some n -> n < length (p_switch prog)) ->
  forall (l : lexer U) (s : sstate U) (fuel : positive),
  RuntimeProofs.sim T E U prog rss entry actions l s ->
  enough_fuel U fuel l ->
  exists fuel' : nat,
    match spec_next benv width tab_width T E U rss actions fuel' s with
    | Some (oi, s') =>
        exists l' : lexer U,
          next width tab_width T E U prog actions fuel l = (outcome_of T E oi, l') /\\
          RuntimeProofs.sim T E U prog rss entry actions l' s'
    | None => False
    end.
Proof. exact next_simulates. Qed.

Theorem %(p)s_stream :
  forall (benv : builtin_env) (width : N -> N) (tab_width : N) (T E U : Type) (prog : program)
         (rss : list (list crule)) (cidx : nat -> option nat) (entry : nat -> nat)
         (At : nat -> list N -> nat -> Prop) (actions : nat -> action T E U),
  scan_ok benv prog rss cidx entry At ->
  (forall (a : nat) (v : view) (u : U) (n : nat),
      a_switch (actions a v u) = Some n -> n < length (p_switch prog)) ->
  forall (whole : list N) (u : U) (with_str : bool) (n : nat) (fuel : positive),
  Forall (fun c : N => is_scalar c = true) whole ->
  (with_str = false -> RuntimeProofs.text_blind T E U actions) ->
  enough_fuel U fuel (lexer_new U whole u with_str) ->
  exists r : list (option (item T E)),
    spec_run benv width tab_width T E U rss actions n (s_init U whole u) r /\\
    run_lexer width tab_width T E U prog actions n fuel (lexer_new U whole u with_str) =
    map (outcome_of T E) r.
Proof. exact lexer_stream_correct. Qed.

Theorem %(p)s_compiled_scan_ok :
  forall (benv : builtin_env) (mg : nat) (d : def) (c : compiled) (rss : list (list crule))
         (cidx : nat -> option nat),
  compile benv mg d = Ok c ->
  length (c_rulesets c) = length rss ->
  (forall (k : nat) (ra : ruleset_art), nth_error (c_rulesets c) k = Some ra ->
      ruleset_sem benv (nth k rss []) cidx (ra_dfa ra)) ->
  (forall (k : nat) (r : crule), In r (nth k rss []) -> cidx (cr_act r) = None <-> cr_ctx r = None) ->
  (forall (k : nat) (r : crule) (i : nat) (cre : regex),
      In r (nth k rss []) -> cidx (cr_act r) = Some i -> cr_ctx r = Some cre ->
      exists ca : ctx_art, nth_error (c_ctxs c) i = Some ca /\\ ctx_sem benv mg cre (ca_dfa ca)) ->
  (forall (k : nat) (r : crule), In r (nth k rss []) -> nullable (of_regex benv (cr_re r)) = false) ->
  scan_ok benv (c_program c) rss cidx (c_entry c) (c_At c).
Proof. exact compile_scan_ok_wit. Qed.

(* the per-rule-set facts follow from the Thompson theorem and the subset certificate *)
Theorem %(p)s_ruleset_sem :
  forall (benv : builtin_env) (rules : list rob) (b : bindings) (ctxs0 : list ctx_art) (n : nfa)
         (ctxs : list ctx_art) (crules : list crule) (d : dfa nat) (m : state_map)
         (cidx : nat -> option nat),
  benv_wf benv ->
  compile_rules benv rules nfa_new b ctxs0 = Ok (n, ctxs) ->
  close_rules rules b = Ok crules ->
  Forall (fun r : crule => wf_crule benv r = true) crules ->
  Forall (fun r : crule => regex_chars_ok benv (cr_re r) = true) crules ->
  (forall (k : nat) (r : crule), nth_error crules k = Some r ->
      cidx (cr_act r) = nth k (ctx_indices (length ctxs0) crules) None) ->
  dfa_closed n d m -> 0 < length d -> dfa_shape_ok d -> ruleset_sem benv crules cidx d.
Proof. exact ruleset_sem_of_closed_wf_crule. Qed.

(* ------------------------------------------------------------------------------------------
   The generated code itself. GenCode.v describes the Rust code the macro emits as syntax trees
   (gen_arms: the arms of `match self.0.__state`, nested for inlined states) and says what running
   them does (gnext: one call of the generated next()). harness/gencode.py translates the token stream
   of the REAL macro into these trees on every run and compares them with gen_arms. Running the trees
   is running the interpreter of Runtime.v, call by call, with the same fuel; hence, for every compiled
   well-formed definition, the generated code produces the stream of the reference semantics. *)
Theorem %(p)s_generated_next :
  forall (width : N -> N) (tab_width : N) (T E U : Type) (prog : program) (actions : nat -> action T E U)
         (arms : list (option nat * gcode)) (fuel : positive) (l : lexer U) (o : outcome T E) (l' : lexer U),
  chars_nodup prog ->
  gen_arms prog = Ok arms ->
  next width tab_width T E U prog actions fuel l = (o, l') ->
  o <> OPanic T E TagOutOfFuel ->
  gnext width tab_width T E U prog actions fuel arms l = (o, l').
Proof. exact gnext_correct. Qed.

Theorem %(p)s_generated_code_stream :
  forall benv mg (width : N -> N) tab_width (T E U : Type) (d : def) c rss (actions : nat -> action T E U) arms,
  benv_wf benv ->
  compile benv mg d = Ok c ->
  def_rulesets d = Ok rss ->
  wf_def benv d = true ->
  def_chars_ok benv rss ->
  acts_distinct d ->
  (forall a v u n, a_switch (actions a v u) = Some n -> n < length (p_switch (c_program c))) ->
  gen_arms (c_program c) = Ok arms ->
  forall whole u with_str,
    Forall (fun ch => is_scalar ch = true) whole ->
    (with_str = false -> RuntimeProofs.text_blind T E U actions) ->
  forall n fuel, enough_fuel U fuel (lexer_new U whole u with_str) ->
  exists r, spec_run benv width tab_width T E U rss actions n (s_init U whole u) r /\\
            grun_lexer width tab_width T E U (c_program c) actions arms n fuel (lexer_new U whole u with_str)
              = map (outcome_of T E) r.
Proof. exact generated_code_correct_model. Qed.

(* The IMPLEMENTATION's program. The real macro numbers the states of its automata differently from the model for
   some definitions (hash-map iteration order). The check builds the program P' from the implementation's own dumped
   simplified DFA, finds a renaming of states (untrusted search) and verifies it with the boolean prog_iso_b
   (sound: %(p)s_prog_iso_checker_sound). For every such P' the interpreter and the generated code produce the stream
   of the reference semantics - the end-to-end theorems about exactly the program the real generated code runs. *)
Theorem %(p)s_prog_iso_checker_sound : forall fl gl P P',
  prog_iso_b fl gl P P' = true -> prog_iso (fun s => nth s fl 0) P P'.
Proof. exact prog_iso_b_sound. Qed.

Theorem %(p)s_impl_program_correct :
  forall benv mg (width : N -> N) tab_width (T E U : Type) (d : def) c rss
         (actions : nat -> action T E U) fl gl P',
  benv_wf benv -> compile benv mg d = Ok c -> def_rulesets d = Ok rss -> wf_def benv d = true ->
  def_chars_ok benv rss -> acts_distinct d ->
  prog_iso_b fl gl (c_program c) P' = true ->
  (forall a v u n, a_switch (actions a v u) = Some n -> n < length (p_switch P')) ->
  forall whole u with_str,
    Forall (fun ch => is_scalar ch = true) whole ->
    (with_str = false -> RuntimeProofs.text_blind T E U actions) ->
  forall n fuel, enough_fuel U fuel (lexer_new U whole u with_str) ->
  exists r, spec_run benv width tab_width T E U rss actions n (s_init U whole u) r /\\
            run_lexer width tab_width T E U P' actions n fuel (lexer_new U whole u with_str)
              = map (outcome_of T E) r.
Proof. exact impl_program_correct. Qed.

Theorem %(p)s_impl_generated_code_correct :
  forall benv mg (width : N -> N) tab_width (T E U : Type) (d : def) c rss
         (actions : nat -> action T E U) fl gl P' arms,
  benv_wf benv -> compile benv mg d = Ok c -> def_rulesets d = Ok rss -> wf_def benv d = true ->
  def_chars_ok benv rss -> acts_distinct d ->
  prog_iso_b fl gl (c_program c) P' = true ->
  (forall a v u n, a_switch (actions a v u) = Some n -> n < length (p_switch P')) ->
  chars_nodup_b P' = true -> gen_arms P' = Ok arms ->
  forall whole u with_str,
    Forall (fun ch => is_scalar ch = true) whole ->
    (with_str = false -> RuntimeProofs.text_blind T E U actions) ->
  forall n fuel, enough_fuel U fuel (lexer_new U whole u with_str) ->
  exists r, spec_run benv width tab_width T E U rss actions n (s_init U whole u) r /\\
            grun_lexer width tab_width T E U P' actions arms n fuel (lexer_new U whole u with_str)
              = map (outcome_of T E) r.
Proof. exact impl_generated_code_correct. Qed.

(* the side condition of %(p)s_generated_next is decided by a boolean the check evaluates on the automata
   the real macro dumped *)
Theorem %(p)s_generated_code_side_condition : forall p, chars_nodup_b p = true -> chars_nodup p.
Proof. exact chars_nodup_b_sound. Qed.

(* ------------------------------------------------------------------------------------------
   The run-time library. gen/GenUtil.v is the translation of crates/lexgen_util/src/lib.rs, regenerated on every
   run (harness/gen_util.py, statement by statement); the methods generated code calls are exactly the operations
   the interpreter and the generated-code semantics use: reading a character with its location update (tab width
   as found in the source), the rewind point, backtrack() in both outcomes, reset_match, and the constructors. *)
Theorem %(p)s_library_next : forall (width : N -> N) (U : Type) (l : lexer U),
  util_next width U l = read_char width TAB_WIDTH U l.
Proof. exact util_next_ok. Qed.

Theorem %(p)s_library_backtrack : forall (T E U : Type) (prog : program) (actions : nat -> action T E U) (l : lexer U),
  exec_backtrack T E U prog actions l =
  match util_backtrack U l with
  | (inl loc, l1) => inr (OItem T E (IInvalid loc), reset_match U l1)
  | (inr a, l1) => run_action T E U prog actions l1 a
  end.
Proof. exact util_backtrack_ok. Qed.

Theorem %(p)s_library_rewind_point : forall (U : Type) (l : lexer U) (a : nat),
  util_set_accepting_state U l a = set_last U l (Some (l_mstart U l, l_iter U l, a, l_mend U l)) /\\
  util_reset_accepting_state U l = set_last U l None /\\
  util_reset_match U l = reset_match U l /\\
  util_match_loc U l = (l_mstart U l, l_mend U l) /\\
  util_peek U l = hd_error (l_iter U l).
Proof. intros U l a. repeat split. Qed.

Theorem %(p)s_library_constructors : forall (U : Type) (input : list N) (u : U),
  util_new_with_state U input u = lexer_new U input u true /\\
  util_new_from_iter_with_state U input u = lexer_new U input u false.
Proof. intros U input u. split; reflexivity. Qed.

Theorem %(p)s_library_match_text : forall (U : Type) (l : lexer U) (inp : list N),
  l_input U l = Some inp ->
  make_view U l = match util_match_ U l with
                  | Some t => Ok (mkView t (l_mstart U l) (l_mend U l) (util_peek U l))
                  | None => Panic TagSlice
                  end.
Proof. exact util_match_ok. Qed.
""" % {"p": p}

def pa(names):
    return "\n" + "\n".join("Print Assumptions %s." % n for n in names) + "\n"

COMMON = lambda p: ["%s_next_simulates" % p, "%s_stream" % p, "%s_compiled_scan_ok" % p, "%s_ruleset_sem" % p,
                    "%s_generated_next" % p, "%s_generated_code_stream" % p, "%s_prog_iso_checker_sound" % p,
                    "%s_impl_program_correct" % p, "%s_impl_generated_code_correct" % p, "%s_generated_code_side_condition" % p,
                    "%s_library_next" % p, "%s_library_backtrack" % p, "%s_library_rewind_point" % p,
                    "%s_library_constructors" % p, "%s_library_match_text" % p]

SELECT = lambda p: """
(* the reference selection is the textbook maximal-munch selection stated with Spec.lang only *)
Theorem %(p)s_select_is_maximal_munch : forall (benv : builtin_env) rules w r k e,
  (forall r, In r rules -> rule_closed r) ->
  select benv rules w = Some (r, (k, e)) ->
  exists i, nth_error rules i = Some r /\\ candidate benv r w k e /\\
    (forall r' k' e', In r' rules -> candidate benv r' w k' e' -> le_ke (k', e') (k, e)) /\\
    (forall j r', j < i -> nth_error rules j = Some r' -> ~ candidate benv r' w k e).
Proof. exact select_some. Qed.

Theorem %(p)s_select_none : forall (benv : builtin_env) rules w,
  (forall r, In r rules -> rule_closed r) ->
  select benv rules w = None -> forall r k e, In r rules -> ~ candidate benv r w k e.
Proof. exact select_none. Qed.

Theorem %(p)s_select_complete : forall (benv : builtin_env) rules w r k e,
  (forall r, In r rules -> rule_closed r) ->
  In r rules -> candidate benv r w k e ->
  exists r0 k0 e0, select benv rules w = Some (r0, (k0, e0)).
Proof. exact select_complete. Qed.
""" % {"p": p}

E2E = """
(* ------------------------------------------------------------------------------------------
   End to end: for every well-formed definition the model of the macro compiles (compile = Ok c),
   whose automata pass the certificates (decided by the proved-sound boolean checker certs_ok_b,
   which the correspondence check runs on the automata dumped by the REAL macro), the generated
   lexer's stream on every input of scalar values, with every user state and all action
   functions, is the stream of the reference semantics (maximal munch, first rule, right
   contexts, end of input, failures, actions). *)
Theorem c01_lexer_correct :
  forall benv mg (width : N -> N) tab_width (T E U : Type) (d : def) c rss
         (actions : nat -> action T E U),
  benv_wf benv ->
  compile benv mg d = Ok c ->
  def_rulesets d = Ok rss ->
  wf_def benv d = true ->
  def_chars_ok benv rss ->
  certs_ok c ->
  acts_distinct d ->
  (forall a v u n, a_switch (actions a v u) = Some n -> n < length (p_switch (c_program c))) ->
  forall whole u with_str,
    Forall (fun ch => is_scalar ch = true) whole ->
    (with_str = false -> RuntimeProofs.text_blind T E U actions) ->
  forall n fuel, enough_fuel U fuel (lexer_new U whole u with_str) ->
  exists r, spec_run benv width tab_width T E U rss actions n (s_init U whole u) r /\\
            run_lexer width tab_width T E U (c_program c) actions n fuel
              (lexer_new U whole u with_str) = map (outcome_of T E) r.
Proof. exact lexer_correct. Qed.

Theorem c01_certificates_sound : forall c, certs_ok_b c = true -> certs_ok c.
Proof. exact certs_ok_b_sound. Qed.

(* the same with no certificate hypothesis: the model of the whole macro pipeline is correct *)
Theorem c01_lexer_correct_model :
  forall benv mg (width : N -> N) tab_width (T E U : Type) (d : def) c rss (actions : nat -> action T E U),
  benv_wf benv ->
  compile benv mg d = Ok c ->
  def_rulesets d = Ok rss ->
  wf_def benv d = true ->
  def_chars_ok benv rss ->
  acts_distinct d ->
  (forall a v u n, a_switch (actions a v u) = Some n -> n < length (p_switch (c_program c))) ->
  forall whole u with_str,
    Forall (fun ch => is_scalar ch = true) whole ->
    (with_str = false -> RuntimeProofs.text_blind T E U actions) ->
  forall n fuel, enough_fuel U fuel (lexer_new U whole u with_str) ->
  exists r, spec_run benv width tab_width T E U rss actions n (s_init U whole u) r /\\
            run_lexer width tab_width T E U (c_program c) actions n fuel
              (lexer_new U whole u with_str) = map (outcome_of T E) r.
Proof. exact lexer_correct_model. Qed.

(* non-vacuity: a concrete definition with two rule sets, a right context, a join reachable with and
   without an earlier accepting state, a switch target and a `$` rule meets every hypothesis *)
Definition d_example : def :=
  [TRuleSet name_Init
     [RBRule (mkRule (RChar 97) (Some (RChar 98)) 0);
      RBRule (mkRule (RCat (ROr (RChar 97) (RChar 99)) (RCat (RChar 100) (RChar 101))) None 1);
      RBRule (mkRule (RChar 115) None 2)];
   TRuleSet [82%N]
     [RBRule (mkRule (RPlus (RCharSet [CRange 97 99])) None 3);
      RBRule (mkRule REoi None 4)]].
Example c01_hypotheses_satisfiable :
  match compile builtin_table MAX_GUARD_SIZE d_example with
  | Ok c => model_hyps d_example = true /\\ certs_ok_b c = true /\\ length (p_switch (c_program c)) = 2
  | Panic _ => False
  end.
Proof. vm_compute. repeat split; reflexivity. Qed.

(* ... and the hypotheses of the generated-code theorems: the generator succeeds on it (the nesting of inlined
   states is within its fuel), every state has distinct character keys, every context automaton passes its side
   conditions, and the code has the four arms of its four states that are not inlined *)
Example c01_generated_code_hypotheses_satisfiable :
  match compile builtin_table MAX_GUARD_SIZE d_example with
  | Ok c => match gen_program (c_program c) with
            | Ok gp => chars_nodup_b (c_program c) = true /\\
                       forallb ctx_code_ok_b (p_ctxs (c_program c)) = true /\\
                       (2 <=? length (gp_arms gp)) = true /\\ length (gp_ctxs gp) = 1
            | Panic _ => False
            end
  | Panic _ => False
  end.
Proof. vm_compute. repeat split; reflexivity. Qed.
"""

files = {}

files["C01"] = ("""(* C01 Longest match with first-rule priority, recovered by backtracking. *)
""" + IMPORTS + """From LexVerif Require Import BacktrackProofs.

(* ---- the backtrack-elision analysis (L5) ---- *)
Theorem c01_flags_sound : forall d d',
  targets_ok d -> update_backtracks d = Ok d' -> same_but_flags d d' /\\ flags_sound d'.
Proof. exact update_backtracks_sound. Qed.

Theorem c01_flags_precise : forall d d' t,
  update_backtracks d = Ok d' -> t < length d -> d_bt (dget d' t) = true -> reach_acc d t true.
Proof. exact update_backtracks_precise. Qed.

Theorem c01_flags_sound_needs_targets_ok :
  exists d d', update_backtracks d = Ok d' /\\ ~ flags_sound d'.
Proof. exact sound_needs_targets_ok. Qed.
""" + SELECT("c01") + """
Corollary c01_longest : forall (benv : builtin_env) rules w r k e,
  (forall r, In r rules -> rule_closed r) ->
  select benv rules w = Some (r, (k, e)) ->
  forall r' k' e', In r' rules -> candidate benv r' w k' e' -> k' <= k.
Proof. exact select_longest. Qed.
""" + sim_thm("c01") + E2E,
  ["c01_flags_sound", "c01_flags_precise", "c01_flags_sound_needs_targets_ok", "c01_select_is_maximal_munch",
   "c01_select_none", "c01_select_complete", "c01_longest"] + COMMON("c01") + ["c01_lexer_correct", "c01_certificates_sound", "c01_lexer_correct_model", "c01_hypotheses_satisfiable", "c01_generated_code_hypotheses_satisfiable"])

files["C04"] = ("""(* C04 Right context gates a match without consuming input. *)
""" + IMPORTS + """
(* the generated context function decides "some prefix of the rest, with end-of-input visible,
   is in the context's language", for every context regex *)
Theorem c04_ctx_function : forall (benv : builtin_env) (mg : nat) (b : bindings) (re cre : regex)
    (ctxs ctxs' : list ctx_art) (idx : nat) (ca : ctx_art),
  benv_wf benv ->
  new_right_ctx benv b ctxs re = Ok (ctxs', idx) -> nth_error ctxs' idx = Some ca ->
  expand_top b re = Ok cre -> wf_regex benv cre = true -> regex_chars_ok benv cre = true ->
  dfa_closed (ca_nfa ca) (ca_dfa ca) (ca_map ca) -> 0 < length (ca_dfa ca) -> dfa_shape_ok (ca_dfa ca) ->
  ctx_sem benv mg cre (ca_dfa ca).
Proof. exact ctx_sem_of_closed. Qed.

Theorem c04_ctx_declarative : forall (benv : builtin_env) ctx rest,
  (forall c, ctx = Some c -> closed c = true) ->
  (ctx_ok benv ctx rest = true <-> ctx_holds benv ctx rest).
Proof. exact ctx_ok_correct. Qed.

(* the generated right-context functions (`fn <L>_RIGHT_CTX_i(mut input) -> bool`, as syntax trees GenCode.gen_cx,
   compared by harness/gencode.py with the code the real macro emitted): running them (cx_exec) computes exactly
   the context decision ctx_run that c04_ctx_function is about, and returns for every input - for every context
   automaton that passes the executable side conditions (distinct character keys, well-formed range maps,
   end-of-input transitions into accepting states), and for every context of a compiled well-formed definition *)
Theorem c04_generated_ctx_function : forall mg d input,
  ctx_code_ok_b d = true ->
  (exists fuel, cx_exec fuel (gen_cx mg d) 0 input = Some (ctx_run mg d 0 input)) /\\
  (forall fuel b, cx_exec fuel (gen_cx mg d) 0 input = Some b -> ctx_run mg d 0 input = b).
Proof. exact ctx_code_ok_b_sound. Qed.

Theorem c04_generated_ctx_compiled : forall benv mg d c rss,
  benv_wf benv ->
  compile benv mg d = Ok c ->
  def_rulesets d = Ok rss ->
  wf_def benv d = true ->
  def_chars_ok benv rss ->
  forall dc, In dc (p_ctxs (c_program c)) ->
  eoi_targets_accepting dc = true ->
  forall mg' input,
    (exists fuel, cx_exec fuel (gen_cx mg' dc) 0 input = Some (ctx_run mg' dc 0 input)) /\\
    (forall fuel b, cx_exec fuel (gen_cx mg' dc) 0 input = Some b -> ctx_run mg' dc 0 input = b).
Proof. exact generated_ctx_correct_model. Qed.
""" + SELECT("c04") + sim_thm("c04"),
  ["c04_ctx_function", "c04_ctx_declarative", "c04_generated_ctx_function", "c04_generated_ctx_compiled",
   "c04_select_is_maximal_munch", "c04_select_none", "c04_select_complete"] + COMMON("c04"))

files["C05"] = ("""(* C05 End-of-input protocol: `$`, termination in Init, error elsewhere, fused stream. *)
""" + IMPORTS + """
(* fused stream, for EVERY program and action (no hypothesis at all): None is only returned with
   the done flag set, and once it is set every call returns None and changes nothing *)
Theorem c05_done_is_final : forall (width : N -> N) (tab_width : N) (T E U : Type) (prog : program)
    (actions : nat -> action T E U) (fuel : positive) (l : lexer U),
  l_done U l = true -> next width tab_width T E U prog actions fuel l = (ONone T E, l).
Proof. exact next_done. Qed.

Theorem c05_none_sets_done : forall (width : N -> N) (tab_width : N) (T E U : Type) (prog : program)
    (actions : nat -> action T E U) (fuel : positive) (l l' : lexer U),
  next width tab_width T E U prog actions fuel l = (ONone T E, l') -> l_done U l' = true.
Proof. exact next_none_sets_done. Qed.

Theorem c05_fused : forall (width : N -> N) (tab_width : N) (T E U : Type) (prog : program)
    (actions : nat -> action T E U) (fuel : positive) (a b : nat) (l : lexer U)
    (xs : list (outcome T E)) (l1 l2 : lexer U),
  run_n width tab_width T E U prog actions fuel a l = (xs, l1) ->
  next width tab_width T E U prog actions fuel l1 = (ONone T E, l2) ->
  run_n width tab_width T E U prog actions fuel (a + S b) l = (xs ++ repeat (ONone T E) (S b), l2).
Proof. exact stream_fused. Qed.

Theorem c05_spec_ended : forall (width : N -> N) (tab_width : N) (T E U : Type)
    (actions : nat -> action T E U) (benv : builtin_env) (rulesets : list (list crule)) (f : nat)
    (s : sstate U),
  s_ended U s = true -> spec_next benv width tab_width T E U rulesets actions (S f) s = Some (None, s).
Proof. exact spec_ended. Qed.

(* a match through `$` is preferred to the same lexeme without it *)
Theorem c05_prefers_eoi : forall (benv : builtin_env) rules w r k,
  (forall r, In r rules -> rule_closed r) ->
  select benv rules w = Some (r, (k, false)) ->
  forall r', In r' rules -> ~ candidate benv r' w k true.
Proof. exact select_prefers_eoi. Qed.
""" + SELECT("c05") + sim_thm("c05"),
  ["c05_done_is_final", "c05_none_sets_done", "c05_fused", "c05_spec_ended", "c05_prefers_eoi",
   "c05_select_is_maximal_munch", "c05_select_none", "c05_select_complete"] + COMMON("c05"))

files["C06"] = ("""(* C06 Spans and locations are exact, also after rewinding and across wide characters.
   The simulation relation contains l_mstart = s_mstart, l_mend = s_pos and the byte-index
   invariant of the match text; the reference locations are folds of [advance]. *)
""" + IMPORTS + """
Theorem c06_byte_index : forall (width : N -> N) (tab_width : N) (p : list N) (l : Loc),
  byte_idx (advance_all width tab_width l p) = (byte_idx l + utf8_size p)%N.
Proof. exact advance_all_byte_idx. Qed.

Theorem c06_prefix_compositional : forall (width : N -> N) (tab_width : N) (p q : list N),
  loc_of_prefix width tab_width (p ++ q) = advance_all width tab_width (loc_of_prefix width tab_width p) q.
Proof. exact loc_of_prefix_app. Qed.

Theorem c06_newline : forall (width : N -> N) (tab_width : N) (l : Loc),
  advance width tab_width l 10 = mkLoc (line l + 1) 0 (byte_idx l + 1).
Proof. exact advance_newline. Qed.

Theorem c06_tab : forall (width : N -> N) (tab_width : N) (l : Loc),
  advance width tab_width l 9 = mkLoc (line l) (col l + tab_width) (byte_idx l + 1).
Proof. exact advance_tab. Qed.

Theorem c06_other : forall (width : N -> N) (tab_width : N) (l : Loc) (c : N),
  c <> 10%N -> c <> 9%N ->
  advance width tab_width l c = mkLoc (line l) (col l + width c) (byte_idx l + utf8_len c).
Proof. exact advance_other. Qed.

(* a token's span and what the action saw: start of the accumulated match, end of the lexeme *)
Theorem c06_token_span : forall (benv : builtin_env) (width : N -> N) (tab_width : N) (T E U : Type)
    (rss : list (list crule)) (actions : nat -> action T E U) (s : sstate U) st t en s',
  spec_step benv width tab_width T E U rss actions s = SItem T E U (ITok st t en) s' ->
  exists r k e,
    select benv (nth (s_rs U s) rss []) (s_rest U s) = Some (r, (k, e)) /\\
    let pos' := advance_all width tab_width (s_pos U s) (firstn k (s_rest U s)) in
    let v := mkView (s_mtext U s ++ firstn k (s_rest U s)) (s_mstart U s) pos'
                    (hd_error (skipn k (s_rest U s))) in
    let o := actions (cr_act r) v (s_user U s) in
    a_res o = AReturn (inl t) /\\ en = pos' /\\ st = (if a_reset o then pos' else s_mstart U s) /\\
    s_rest U s' = skipn k (s_rest U s) /\\ s_mstart U s' = pos' /\\ s_pos U s' = pos' /\\
    s_rs U s' = (match a_switch o with Some n => n | None => s_rs U s end).
Proof. exact spec_token. Qed.

(* every location of every item of the reference stream is the location obtained by scanning the
   input from its beginning up to that point (a prefix of the input), start <= end *)
Theorem c06_item_locations : forall (benv : builtin_env) (width : N -> N) (tab_width : N) (T E U : Type)
    (rss : list (list crule)) (actions : nat -> action T E U) (whole : list N) (n : nat) (s : sstate U)
    (r : list (option (item T E))),
  loc_inv width tab_width U whole s ->
  spec_run benv width tab_width T E U rss actions n s r ->
  forall i : item T E, In (Some i) r -> item_loc_ok width tab_width T E whole i.
Proof. exact spec_run_item_locs. Qed.

Theorem c06_initial_state_ok : forall (width : N -> N) (tab_width : N) (U : Type) (whole : list N) (u : U),
  loc_inv width tab_width U whole (s_init U whole u).
Proof. exact loc_inv_init. Qed.

(* successive items never overlap and appear in input order *)
Theorem c06_items_ordered : forall (benv : builtin_env) (width : N -> N) (tab_width : N) (T E U : Type)
    (rss : list (list crule)) (actions : nat -> action T E U) (whole : list N) (n : nat) (s : sstate U)
    (r : list (option (item T E))),
  loc_inv width tab_width U whole s ->
  spec_run benv width tab_width T E U rss actions n s r ->
  ordered_from T E (byte_idx (s_mstart U s)) r.
Proof. exact spec_run_ordered. Qed.

(* what the action of a token saw: match_loc() = two prefix locations, match_() = the input slice between
   them, peek() = the next character; the token's end is the view's end, its start the view's start
   (or the end after reset_match) *)
Theorem c06_token_view : forall (benv : builtin_env) (width : N -> N) (tab_width : N) (T E U : Type)
    (rss : list (list crule)) (actions : nat -> action T E U) (whole : list N) (s : sstate U)
    (st : Loc) (t : T) (en : Loc) (s' : sstate U),
  loc_inv width tab_width U whole s ->
  spec_step benv width tab_width T E U rss actions s = SItem T E U (ITok st t en) s' ->
  exists (r : crule) (k : nat) (e : bool) (v : view),
    select benv (nth (s_rs U s) rss []) (s_rest U s) = Some (r, (k, e)) /\\
    SpecInvariants.view_ok width tab_width whole v /\\
    a_res (actions (cr_act r) v (s_user U s)) = AReturn (inl t) /\\
    en = v_end v /\\
    st = (if a_reset (actions (cr_act r) v (s_user U s)) then v_end v else v_start v).
Proof. exact token_view. Qed.
""" + sim_thm("c06"),
  ["c06_byte_index", "c06_prefix_compositional", "c06_newline", "c06_tab", "c06_other", "c06_token_span",
   "c06_item_locations", "c06_initial_state_ok", "c06_items_ordered", "c06_token_view"] + COMMON("c06"))

files["C07"] = ("""(* C07 Errors are raised exactly when nothing matches and point at the lexeme start. *)
""" + IMPORTS + """
Theorem c07_invalid_iff : forall (benv : builtin_env) (width : N -> N) (tab_width : N) (T E U : Type)
    (rss : list (list crule)) (actions : nat -> action T E U) (s : sstate U),
  s_ended U s = false ->
  ((exists l s', spec_step benv width tab_width T E U rss actions s = SItem T E U (IInvalid l) s') <->
   (select benv (nth (s_rs U s) rss []) (s_rest U s) = None /\\ (s_rest U s <> [] \\/ s_rs U s <> 0))).
Proof. exact spec_invalid_iff. Qed.

Theorem c07_invalid_location : forall (benv : builtin_env) (width : N -> N) (tab_width : N) (T E U : Type)
    (rss : list (list crule)) (actions : nat -> action T E U) (s : sstate U) l s',
  spec_step benv width tab_width T E U rss actions s = SItem T E U (IInvalid l) s' ->
  l = s_mstart U s /\\ s_rs U s' = 0 /\\ s_user U s' = s_user U s /\\
  s_mtext U s' = [] /\\ s_mstart U s' = s_pos U s' /\\
  exists n, s_rest U s' = skipn n (s_rest U s) /\\
            s_pos U s' = advance_all width tab_width (s_pos U s) (firstn n (s_rest U s)) /\\
            (s_rest U s <> [] -> 1 <= n).
Proof. exact spec_invalid_state. Qed.

Theorem c07_custom : forall (benv : builtin_env) (width : N -> N) (tab_width : N) (T E U : Type)
    (rss : list (list crule)) (actions : nat -> action T E U) (s : sstate U) x l s',
  spec_step benv width tab_width T E U rss actions s = SItem T E U (ICustom x l) s' ->
  exists r k e,
    select benv (nth (s_rs U s) rss []) (s_rest U s) = Some (r, (k, e)) /\\
    let pos' := advance_all width tab_width (s_pos U s) (firstn k (s_rest U s)) in
    let v := mkView (s_mtext U s ++ firstn k (s_rest U s)) (s_mstart U s) pos'
                    (hd_error (skipn k (s_rest U s))) in
    let o := actions (cr_act r) v (s_user U s) in
    a_res o = AReturn (inr x) /\\ l = (if a_reset o then pos' else s_mstart U s).
Proof. exact spec_custom. Qed.
""" + SELECT("c07") + sim_thm("c07"),
  ["c07_invalid_iff", "c07_invalid_location", "c07_custom", "c07_select_is_maximal_munch", "c07_select_none",
   "c07_select_complete"] + COMMON("c07"))

files["C08"] = ("""(* C08 After a failure the lexer resumes past the bad text, in Init, and stays there. *)
""" + IMPORTS + """
Theorem c08_state_after_failure : forall (benv : builtin_env) (width : N -> N) (tab_width : N) (T E U : Type)
    (rss : list (list crule)) (actions : nat -> action T E U) (s : sstate U) l s',
  spec_step benv width tab_width T E U rss actions s = SItem T E U (IInvalid l) s' ->
  l = s_mstart U s /\\ s_rs U s' = 0 /\\ s_user U s' = s_user U s /\\
  s_mtext U s' = [] /\\ s_mstart U s' = s_pos U s' /\\
  exists n, s_rest U s' = skipn n (s_rest U s) /\\
            s_pos U s' = advance_all width tab_width (s_pos U s) (firstn n (s_rest U s)) /\\
            (s_rest U s <> [] -> 1 <= n).
Proof. exact spec_invalid_state. Qed.

(* ... and stays in Init: the rule set changes only by an action's switch or by a failure *)
Theorem c08_ruleset_changes : forall (benv : builtin_env) (width : N -> N) (tab_width : N) (T E U : Type)
    (rss : list (list crule)) (actions : nat -> action T E U) (s : sstate U),
  match spec_step benv width tab_width T E U rss actions s with
  | SItem _ _ _ _ s' | SCont _ _ _ s' | SEnd _ _ _ s' =>
      s_rs U s' = s_rs U s \\/ s_rs U s' = 0 \\/
      exists r k e v, select benv (nth (s_rs U s) rss []) (s_rest U s) = Some (r, (k, e)) /\\
                      a_switch (actions (cr_act r) v (s_user U s)) = Some (s_rs U s')
  end.
Proof. exact spec_ruleset_change. Qed.

(* what is skipped: the longest viable prefix (declaratively) *)
Theorem c08_viable_prefix : forall (benv : builtin_env) rules w k ext,
  (forall r, In r rules -> rule_closed r) ->
  viable benv rules w = (k, ext) ->
  k <= length w /\\
  (k = 0 \\/ viable_prefix benv rules (firstn k w)) /\\
  (forall k', k < k' <= length w -> ~ viable_prefix benv rules (firstn k' w)) /\\
  (ext = true <-> extensible benv rules (firstn k w)).
Proof. exact viable_correct. Qed.
""" + sim_thm("c08"),
  ["c08_state_after_failure", "c08_ruleset_changes", "c08_viable_prefix"] + COMMON("c08"))

files["C03b"] = None

files["C09"] = ("""(* C09 Every next() call terminates, makes progress, and never panics. *)
""" + IMPORTS + """
(* with fuel quadratic in the remaining input no call runs out of fuel and no Panic outcome
   (failed unwrap, index, slice, missing arm) is possible *)
Theorem c09_no_panic_no_fuel :
  forall (benv : builtin_env) (width : N -> N) (tab_width : N) (T E U : Type) (prog : program)
         (rss : list (list crule)) (cidx : nat -> option nat) (entry : nat -> nat)
         (At : nat -> list N -> nat -> Prop) (actions : nat -> action T E U),
  scan_ok benv prog rss cidx entry At ->
  (forall (a : nat) (v : view) (u : U) (n : nat),
      a_switch (actions a v u) = Some n -> n < length (p_switch prog)) ->
  forall (l : lexer U) (s : sstate U) (fuel : positive),
  RuntimeProofs.sim T E U prog rss entry actions l s ->
  enough_fuel U fuel l ->
  forall t : tag, fst (next width tab_width T E U prog actions fuel l) <> OPanic T E t.
Proof. exact no_panic_no_fuel. Qed.

(* progress of the reference stream: an InvalidToken consumes at least one character unless the
   input is exhausted *)
Theorem c09_failure_progress : forall (benv : builtin_env) (width : N -> N) (tab_width : N) (T E U : Type)
    (rss : list (list crule)) (actions : nat -> action T E U) (s : sstate U) l s',
  spec_step benv width tab_width T E U rss actions s = SItem T E U (IInvalid l) s' ->
  l = s_mstart U s /\\ s_rs U s' = 0 /\\ s_user U s' = s_user U s /\\
  s_mtext U s' = [] /\\ s_mstart U s' = s_pos U s' /\\
  exists n, s_rest U s' = skipn n (s_rest U s) /\\
            s_pos U s' = advance_all width tab_width (s_pos U s) (firstn n (s_rest U s)) /\\
            (s_rest U s <> [] -> 1 <= n).
Proof. exact spec_invalid_state. Qed.

(* a selected match consumes at least one character or is the end-of-input match *)
Theorem c09_match_progress : forall (benv : builtin_env) rules w r k e,
  (forall r, In r rules -> rule_closed r) ->
  select benv rules w = Some (r, (k, e)) ->
  exists i, nth_error rules i = Some r /\\ candidate benv r w k e /\\
    (forall r' k' e', In r' rules -> candidate benv r' w k' e' -> le_ke (k', e') (k, e)) /\\
    (forall j r', j < i -> nth_error rules j = Some r' -> ~ candidate benv r' w k e).
Proof. exact select_some. Qed.

(* a lexer over n characters yields at most n+1 items ... *)
Theorem c09_items_bound : forall (benv : builtin_env) (width : N -> N) (tab_width : N) (T E U : Type)
    (rss : list (list crule)) (actions : nat -> action T E U) (n : nat) (s : sstate U)
    (r : list (option (item T E))),
  spec_run benv width tab_width T E U rss actions n s r ->
  length (filter (fun o : option (item T E) => match o with Some _ => true | None => false end) r)
  <= length (s_rest U s) + 1.
Proof. exact spec_run_items_bound. Qed.

(* ... and runs at most n+1 actions (counted by instrumenting the action functions) *)
Theorem c09_actions_bound : forall (benv : builtin_env) (width : N -> N) (tab_width : N) (T E U : Type)
    (rss : list (list crule)) (actions : nat -> action T E U) (whole : list N) (u : U) (n : nat)
    (r : list (option (item T E))) (s' : sstate (nat * U)),
  spec_run_st benv width tab_width T E (nat * U) rss (count_actions T E U actions) n
              (s_init (nat * U) whole (0, u)) r s' ->
  fst (s_user (nat * U) s') <= length whole + 1.
Proof. exact spec_run_actions_bound. Qed.

(* a selected match consumes at least one character or is the end-of-input match (any rules) *)
Theorem c09_select_shape : forall (benv : builtin_env) (rules : list crule) (w : list N) (r : crule) (k : nat) (e : bool),
  select benv rules w = Some (r, (k, e)) -> k <= length w /\\ (if e then k = length w else 1 <= k).
Proof. exact select_shape. Qed.
""" + sim_thm("c09"),
  ["c09_no_panic_no_fuel", "c09_failure_progress", "c09_match_progress", "c09_items_bound", "c09_actions_bound",
   "c09_select_shape"] + COMMON("c09"))

files["C10"] = ("""(* C10 Semantic-action protocol: once per match, accumulate/reset/return, sugar forms. *)
""" + IMPORTS + """
(* the user state is read and written only by actions *)
Theorem c10_user_state_only_actions : forall (width : N -> N) (tab_width : N) (T E U : Type) (prog : program)
    (actions : nat -> action T E U) (fuel : positive) (l : lexer U) (o : outcome T E) (l' : lexer U),
  next width tab_width T E U prog actions fuel l = (o, l') ->
  usteps T E U actions (l_user U l) (l_user U l').
Proof. exact next_usteps. Qed.

Theorem c10_user_unchanged_without_effects : forall (width : N -> N) (tab_width : N) (T E U : Type)
    (prog : program) (actions : nat -> action T E U),
  (forall (a : nat) (v : view) (u : U), a_user (actions a v u) = u) ->
  forall (fuel : positive) (l : lexer U) (o : outcome T E) (l' : lexer U),
  next width tab_width T E U prog actions fuel l = (o, l') -> l_user U l' = l_user U l.
Proof. exact next_user_unchanged. Qed.

(* sugar: `re,` is reset_match(); continue_()   and   `re = t` is return_(t) *)
Theorem c10_sugar_skip : forall (aid : nat) (v : view) (u : ustate),
  menu_action aid KSkip v u = body_out BResetCont u.
Proof. exact menu_action_skip. Qed.

Theorem c10_sugar_simple : forall (aid : nat) (v : view) (u : ustate) (t : N),
  menu_action aid (KSimple t) v u = body_out (BRet t) u.
Proof. exact menu_action_simple. Qed.

(* what a returned token's action saw, and the effect of reset / switch (reference side) *)
Theorem c10_token_action : forall (benv : builtin_env) (width : N -> N) (tab_width : N) (T E U : Type)
    (rss : list (list crule)) (actions : nat -> action T E U) (s : sstate U) st t en s',
  spec_step benv width tab_width T E U rss actions s = SItem T E U (ITok st t en) s' ->
  exists r k e,
    select benv (nth (s_rs U s) rss []) (s_rest U s) = Some (r, (k, e)) /\\
    let pos' := advance_all width tab_width (s_pos U s) (firstn k (s_rest U s)) in
    let v := mkView (s_mtext U s ++ firstn k (s_rest U s)) (s_mstart U s) pos'
                    (hd_error (skipn k (s_rest U s))) in
    let o := actions (cr_act r) v (s_user U s) in
    a_res o = AReturn (inl t) /\\ en = pos' /\\ st = (if a_reset o then pos' else s_mstart U s) /\\
    s_rest U s' = skipn k (s_rest U s) /\\ s_mstart U s' = pos' /\\ s_pos U s' = pos' /\\
    s_rs U s' = (match a_switch o with Some n => n | None => s_rs U s end).
Proof. exact spec_token. Qed.
""" + sim_thm("c10"),
  ["c10_user_state_only_actions", "c10_user_unchanged_without_effects", "c10_sugar_skip", "c10_sugar_simple",
   "c10_token_action"] + COMMON("c10"))

files["C14"] = ("""(* C14 Lexing depends on the characters only, not on how they are supplied. *)
""" + IMPORTS + """
Theorem c14_constructors_differ_only_in_input : forall (U : Type) (input : list N) (u : U),
  lex_eq_upto_input U (lexer_new U input u true) (lexer_new U input u false).
Proof. exact constructors_differ_only_in_input. Qed.

(* same stream from a string and from an iterator, for every program and all actions that do
   not look at match_() *)
Theorem c14_same_stream : forall (width : N -> N) (tab_width : N) (T E U : Type) (prog : program)
    (actions : nat -> action T E U),
  RuntimeLemmas.text_blind T E U actions ->
  forall (fuel : positive) (n : nat) (input : list N) (u : U) (xs1 : list (outcome T E)) (l1' : lexer U)
         (xs2 : list (outcome T E)) (l2' : lexer U),
  run_n width tab_width T E U prog actions fuel n (lexer_new U input u true) = (xs1, l1') ->
  run_n width tab_width T E U prog actions fuel n (lexer_new U input u false) = (xs2, l2') ->
  ~ In (OPanic T E TagSlice) xs1 -> ~ In (OPanic T E TagSlice) xs2 ->
  xs1 = xs2 /\\ lex_eq_upto_input U l1' l2'.
Proof. exact constructors_same_stream. Qed.

Theorem c14_step_independent : forall (width : N -> N) (tab_width : N) (T E U : Type) (prog : program)
    (actions : nat -> action T E U),
  RuntimeLemmas.text_blind T E U actions ->
  forall (fuel : positive) (l1 l2 : lexer U) (o1 : outcome T E) (l1' : lexer U) (o2 : outcome T E) (l2' : lexer U),
  lex_eq_upto_input U l1 l2 ->
  next width tab_width T E U prog actions fuel l1 = (o1, l1') ->
  next width tab_width T E U prog actions fuel l2 = (o2, l2') ->
  o1 <> OPanic T E TagSlice -> o2 <> OPanic T E TagSlice -> o1 = o2 /\\ lex_eq_upto_input U l1' l2'.
Proof. exact next_input_independent. Qed.
""" + sim_thm("c14"),
  ["c14_constructors_differ_only_in_input", "c14_same_stream", "c14_step_independent"] + COMMON("c14"))

files["C15"] = ("""(* C15 A cloned lexer continues identically and independently: in the model all run-time
   state (saved iterator, done flag, active rule set, locations) lives in the lexer value, and
   the remaining stream is a function of that value. *)
""" + IMPORTS + """
Theorem c15_snapshot : forall (width : N -> N) (tab_width : N) (T E U : Type) (prog : program)
    (actions : nat -> action T E U) (fuel : positive) (a b : nat) (l : lexer U),
  run_n width tab_width T E U prog actions fuel (a + b) l =
  (let (xs, l1) := run_n width tab_width T E U prog actions fuel a l in
   let (ys, l2) := run_n width tab_width T E U prog actions fuel b l1 in (xs ++ ys, l2)).
Proof. exact run_n_add. Qed.

Theorem c15_after_none : forall (width : N -> N) (tab_width : N) (T E U : Type) (prog : program)
    (actions : nat -> action T E U) (fuel fuel' : positive) (l l' : lexer U),
  next width tab_width T E U prog actions fuel l = (ONone T E, l') ->
  next width tab_width T E U prog actions fuel' l' = (ONone T E, l').
Proof. exact next_none_fused. Qed.

(* the reference stream is a function of (n, state) too *)
Theorem c15_spec_deterministic : forall (benv : builtin_env) (width : N -> N) (tab_width : N) (T E U : Type)
    (rss : list (list crule)) (actions : nat -> action T E U) (n : nat) (s : sstate U)
    (r1 r2 : list (option (item T E))),
  spec_run benv width tab_width T E U rss actions n s r1 ->
  spec_run benv width tab_width T E U rss actions n s r2 -> r1 = r2.
Proof. exact spec_run_fun. Qed.
""" + sim_thm("c15"),
  ["c15_snapshot", "c15_after_none", "c15_spec_deterministic"] + COMMON("c15"))

for pid, val in files.items():
    if val is None:
        continue
    body, names = val
    with open(os.path.join(P, pid + ".v"), "w") as f:
        f.write(body + pa(names))
    print("wrote", pid, len(names), "theorems")
